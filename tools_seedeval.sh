#!/bin/bash
# usage: tools_seedeval.sh <patch.diff> <prop> [tier] ; applies the patch to a scratch worktree of /repo (never to /repo
# itself, so that other running checks are not disturbed), runs the check against it (VERIF_REPO), removes the worktree
set -u
patch="$(readlink -f "$1")"; prop="$2"; tier="${3:-quick}"
wt=/tmp/wt/eval_$$
mkdir -p /tmp/wt
git -C /repo worktree add -q --detach "$wt" HEAD || exit 2
cd "$wt" || exit 2
if ! git apply "$patch" 2>/tmp/apply_$$.err; then echo "PATCH DOES NOT APPLY"; head -5 /tmp/apply_$$.err; cd /; git -C /repo worktree remove --force "$wt"; rm -f /tmp/apply_$$.err; exit 3; fi
rm -f /tmp/apply_$$.err
cd /verif
VERIF_EVIDENCE_DIR=/tmp/wt/evidence_seed VERIF_REPO="$wt" timeout 3000 ./check "$prop" --tier "$tier" > /tmp/seedeval_$$.out 2>&1
rc=$?
grep -E "^VIOLATION|^KNOWN|^MACHINERY|what:|^C[0-9]+ (quick|thorough)" /tmp/seedeval_$$.out | cut -c1-260 | head -12
echo "rc=$rc drift_lines=$(grep -c '^DRIFT' /tmp/seedeval_$$.out)"
rm -f /tmp/seedeval_$$.out
cd /; git -C /repo worktree remove --force "$wt"; git -C /repo worktree prune
