#!/bin/bash
# usage: tools_seedeval.sh <patch.diff> <prop> [tier] ; applies the patch to /repo, runs the check, restores /repo
set -u
patch="$1"; prop="$2"; tier="${3:-quick}"
cd /repo || exit 2
if ! git diff --quiet; then echo "REPO DIRTY"; exit 2; fi
if ! git apply --3way "$patch" 2>/tmp/apply.err; then
  if ! git apply "$patch" 2>>/tmp/apply.err; then echo "PATCH DOES NOT APPLY"; cat /tmp/apply.err | head -5; git checkout -- . ; exit 3; fi
fi
git reset -q 2>/dev/null
cd /verif
timeout 3000 ./check "$prop" --tier "$tier" > /tmp/seedeval.out 2>&1
rc=$?
grep -E "^VIOLATION|^KNOWN|^MACHINERY|what:|^C[0-9]+ (quick|thorough)" /tmp/seedeval.out | cut -c1-260 | head -12
echo "rc=$rc drift_lines=$(grep -c '^DRIFT' /tmp/seedeval.out)"
git -C /repo checkout -- . ; git -C /repo status --short
rm -f /verif/replays/*.json
