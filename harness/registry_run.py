"""Spec growth (Registry.tla): random registration words on a real SimpleJSONRPCDispatcher; after each operation every
probe name is requested through _marshaled_dispatch (which callable ran?) and system.listMethods is read.
  run <out.json> <seed> <n>"""
import json
import logging
import random
import sys

from jsonrpclib.SimpleJSONRPCServer import SimpleJSONRPCDispatcher

logging.disable(logging.CRITICAL)
NAMES = ["a", "b", "c", "s.x", "_p", "s._h", "nope"]


class Sub(object):
    def x(self):
        return "inst:s.x"

    def _h(self):
        return "inst:s._h"


class Plain(object):
    def __init__(self):
        self.s = Sub()

    def a(self):
        return "inst:a"

    def c(self):
        return "inst:c"

    def _p(self):
        return "inst:_p"


class WithDispatch(Plain):
    def _dispatch(self, method, params):
        return "instdispatch"


def mkfunc(fid, named):
    def f():
        return fid
    f.__name__ = named
    return f


def probe(d):
    out = []
    for i, name in enumerate(NAMES):
        r = json.loads(d._marshaled_dispatch(json.dumps({"jsonrpc": "2.0", "id": i, "method": name})))
        ran = r["result"] if "result" in r else ("unknown" if r["error"]["code"] == -32601 else "error%s" % r["error"]["code"])
        out.append({"name": name, "ran": ran})
    r = json.loads(d._marshaled_dispatch(json.dumps({"jsonrpc": "2.0", "id": 99, "method": "system.listMethods"})))
    listed = r["result"] if "result" in r else ["-"]
    return out, listed


def run_word(rnd, length):
    d = SimpleJSONRPCDispatcher()
    ev = []
    for _ in range(length):
        op = rnd.choice(["regf", "regf", "regf", "reginst", "regintro"])
        e = {"op": op, "n": "-", "f": "-", "k": "-"}
        if op == "regf":
            n, f = rnd.choice(["a", "b", "s.x", "_p"]), rnd.choice(["F1", "F2"])
            if rnd.random() < 0.4 and "." not in n:
                d.register_function(mkfunc(f, n))            # registered under the function's own name
            else:
                d.register_function(mkfunc(f, "whatever"), n)
            e.update(n=n, f=f)
        elif op == "reginst":
            k = rnd.choice(["plain", "disp"])
            d.register_instance(Plain() if k == "plain" else WithDispatch(), allow_dotted_names=True) if rnd.random() < 2 else None
            e.update(k=k)
        else:
            d.register_introspection_functions()
        e["probe"], e["listed"] = probe(d)
        ev.append(e)
    return {"ev": ev}


if __name__ == "__main__":
    out, seed, n = sys.argv[2], int(sys.argv[3]), int(sys.argv[4])
    rnd = random.Random(seed)
    json.dump([run_word(rnd, rnd.randint(1, 7)) for _ in range(n)], open(out, "w"))
    print(n)
