"""Generates real Python classes (in the synthetic module `verif_beans`, or with __module__ == "__main__" for
locally registered ones) together with the class table CT that JsonClass.tla reads (DESIGN C07)."""
import decimal
import enum
import sys
import types

import jsonrpclib.config

from harness.values import enc

MOD = "verif_beans"


class World(object):
    def __init__(self, ser_name="_serialize", ign_name="_ignore"):
        self.mod = types.ModuleType(MOD)
        sys.modules[MOD] = self.mod
        self.ser_name, self.ign_name = ser_name, ign_name
        self.CT = {}
        self.cls = {}
        self.fieldnames = {}
        self.config = jsonrpclib.config.Config(serialize_method=ser_name, ignore_attribute=ign_name)
        self._build()

    def _reg(self, key, cls, kind="plain", ctor=(), ignore=(), local=False, members=None, fields=()):
        if local:
            cls.__module__ = "__main__"
            self.config.classes.add(cls)
            qual = cls.__name__
        else:
            cls.__module__ = MOD
            setattr(self.mod, cls.__name__, cls)
            qual = MOD + "." + cls.__name__
        self.cls[key] = cls
        self.fieldnames[key] = list(fields)
        self.CT[key] = {"qual": qual, "kind": kind, "ctor": list(ctor), "ignore": list(ignore), "local": local,
                        "members": members or {"-": enc(None)}}

    def _build(self):
        ign = self.ign_name

        class D0(object):
            pass

        class D1(D0):
            pass

        class D2(D1):
            pass

        class D3(D2):
            pass

        class S0(object):
            __slots__ = ("a", "_b")

        class S1(S0):
            __slots__ = ("c",)

        class S2(S1):
            __slots__ = ("d_",)

        class S3(S1):
            __slots__ = ()              # a slotted level that declares no field of its own

        class S4(S3):
            __slots__ = ("z",)          # ... and one below such a level

        class M1(S0):
            pass

        class L0(object):
            pass

        class LS0(object):
            __slots__ = ("p", "q")
        self._reg("D0", D0, fields=["a", "_b", "_D0__c"])
        self._reg("D1", D1, fields=["a", "_b", "_D0__c", "d"])
        self._reg("D2", D2, fields=["a", "d", "e2"])
        self._reg("D3", D3, fields=["a", "_b", "d", "e2", "f3"])
        self._reg("S0", S0, fields=["a", "_b"])
        self._reg("S1", S1, fields=["a", "_b", "c"])
        self._reg("S2", S2, fields=["a", "_b", "c", "d_"])
        self._reg("S3", S3, fields=["a", "_b", "c"])
        self._reg("S4", S4, fields=["a", "_b", "c", "z"])
        self._reg("M1", M1, fields=["a", "_b", "e"])
        self._reg("L0", L0, local=True, fields=["a", "b"])
        self._reg("LS0", LS0, local=True, fields=["p", "q"])
        I0 = type("I0", (object,), {ign: ["b", "zz"]})
        self._reg("I0", I0, ignore=["b", "zz"], fields=["a", "b", "c"])
        IS0 = type("IS0", (object,), {"__slots__": ("a", "b", "c"), ign: ["c"]})
        self._reg("IS0", IS0, ignore=["c"], fields=["a", "b", "c"])
        ser = self.ser_name

        def mk_serlist():
            def __init__(self, x=None, y=None):
                self.x, self.y = x, y

            def _s(self):
                return [self.x, self.y], {k: v for k, v in vars(self).items() if k not in ("x", "y")}
            return type("PtL", (object,), {"__init__": __init__, ser: _s})

        def mk_serdict():
            def __init__(self, x, y):            # (required constructor arguments: only the serialisation method supplies them)
                self.x, self.y = x, y

            def _s(self):
                return {"x": self.x, "y": self.y}, {k: v for k, v in vars(self).items() if k not in ("x", "y")}
            return type("PtD", (object,), {"__init__": __init__, ser: _s})
        self._reg("PtL", mk_serlist(), kind="ser_list", ctor=["x", "y"], fields=["x", "y", "label"])
        self._reg("PtD", mk_serdict(), kind="ser_dict", ctor=["x", "y"], fields=["x", "y", "label"])
        Color = enum.Enum("Color", [("RED", 1), ("GREEN", "g"), ("BLUE", 2.5)])
        self._reg("Color", Color, kind="enum", members={m.name: enc(m.value) for m in Color})
        self.CT["Decimal"] = {"qual": "decimal.Decimal", "kind": "decimal", "ctor": [], "ignore": [], "local": False, "members": {"-": enc(None)}}
        self.cls["Decimal"] = decimal.Decimal
        self.plain_keys = ["D0", "D1", "D2", "D3", "S0", "S1", "S2", "S3", "S4", "M1", "L0", "LS0", "I0", "IS0"]

    # ---- objects
    def make(self, key, values):
        """values: callable producing a field value."""
        kind = self.CT[key]["kind"]
        cls = self.cls[key]
        if kind == "enum":
            return list(cls)[values("enumidx") % 3]
        if kind == "decimal":
            return decimal.Decimal(values("decimal"))
        if kind in ("ser_list", "ser_dict"):
            o = cls(values("json"), values("json"))
            o.label = values("json")
            return o
        o = cls()
        for f in self.fieldnames[key]:
            setattr(o, f, values("field"))
        return o

    def fields(self, o):
        """Discovered fields of a bean (for the value bridge): instance dict and slots over the class hierarchy."""
        if isinstance(o, (enum.Enum, decimal.Decimal)):
            return None
        d = {}
        try:
            d.update(vars(o))
        except TypeError:
            pass
        for c in type(o).__mro__:
            for s in getattr(c, "__slots__", ()):
                if hasattr(o, s):
                    d[s] = getattr(o, s)
        return d

    def key_of(self, o):
        for k, c in self.cls.items():
            if type(o) is c:
                return k
        return type(o).__name__

    def enc(self, v):
        """Bridge encoding; class names are the class keys of CT - when the object is an instance of THIS world's class
        of that name (an instance of a same-named class of another generation is reported as foreign)."""
        def namer(o):
            n = type(o).__name__
            if n == "Decimal":
                return n
            return n if self.cls.get(n) is type(o) else "foreign:" + n
        return enc(v, self.fields, namer=namer)
