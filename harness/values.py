"""The value bridge (DESIGN 3.1): the only place where Python equality / type semantics become TLA+ identity.

Every Python / JSON value that crosses into TLA+ is a uniformly shaped record
    {"k": kind, "a": atom, "items": [...], "keys": [...], "cls": name}
so that equality of such records is total in TLC.  Atoms are strings (ints as decimal text, floats as float.hex(),
strings as JSON-escaped ASCII text), dict keys carry a type prefix and are sorted, set-derived containers are sorted by
their canonical JSON text (and compared as bags by Eqv in Values.tla).
"""
import decimal
import enum
import json

KINDS = ("none", "bool", "int", "float", "str", "bytes", "list", "tuple", "set", "frozenset", "dict", "obj", "enum",
         "decimal", "opaque")


def _rec(k, a="", items=(), keys=(), cls=""):
    return {"k": k, "a": a, "items": list(items), "keys": list(keys), "cls": cls}


def key_text(k):
    if isinstance(k, bool):
        return "b:" + str(k)
    if isinstance(k, int):
        return "i:%d" % k
    if isinstance(k, float):
        return "f:" + k.hex()
    if isinstance(k, str):
        return "s:" + json.dumps(k)[1:-1]
    if k is None:
        return "n:"
    return "o:" + type(k).__name__


def enc(v, fields=None, depth=0, namer=None):
    """fields: optional callable obj -> dict of field values (for 'obj' kinds); default: vars()."""
    if depth > 60:
        return _rec("opaque", "too-deep")
    if v is None:
        return _rec("none")
    if isinstance(v, bool):
        return _rec("bool", "true" if v else "false")
    nm = namer or (lambda o: type(o).__name__)
    if isinstance(v, enum.Enum):
        return _rec("enum", json.dumps(v.name)[1:-1], cls=nm(v))
    if isinstance(v, int):
        return _rec("int", str(v))
    if isinstance(v, float):
        return _rec("float", v.hex() if v == v and v not in (float("inf"), float("-inf")) else repr(v))
    if isinstance(v, str):
        return _rec("str", json.dumps(v)[1:-1])
    if isinstance(v, (bytes, bytearray)):
        return _rec("bytes", bytes(v).hex())
    if isinstance(v, decimal.Decimal):
        return _rec("decimal", str(v), cls="Decimal")
    if isinstance(v, (list, tuple)):
        return _rec("list" if isinstance(v, list) else "tuple", items=[enc(x, fields, depth + 1, namer) for x in v])
    if isinstance(v, (set, frozenset)):
        items = sorted((enc(x, fields, depth + 1, namer) for x in v), key=lambda r: json.dumps(r, sort_keys=True))
        return _rec("set" if isinstance(v, set) else "frozenset", items=items)
    if isinstance(v, dict):
        pairs = sorted(((key_text(k), enc(x, fields, depth + 1, namer)) for k, x in v.items()), key=lambda p: p[0])
        return _rec("dict", items=[p[1] for p in pairs], keys=[p[0] for p in pairs])
    if fields is not None:
        try:
            fs = fields(v)
        except Exception:
            fs = None
        if fs is not None:
            pairs = sorted(((key_text(k), enc(x, fields, depth + 1, namer)) for k, x in fs.items()), key=lambda p: p[0])
            return _rec("obj", items=[p[1] for p in pairs], keys=[p[0] for p in pairs], cls=nm(v))
    return _rec("opaque", type(v).__name__, cls=type(v).__name__)


def enc_exc(e):
    """Outcome record of a call: ok(value) or the exception class."""
    return {"kind": type(e).__name__, "text": str(e)[:200]}


NONE = _rec("none")
