"""Runs the real FutureResult / EventData under the controlled scheduler at the granularity of single shared-memory
operations (field reads / writes are intercepted by traced subclasses, Event and Lock come from the shims) and records
traces for FutureTrace.tla (conformance) and FutureObs.tla (property predicates).

  random <n> <seed> <out.json>          random thread programs x random schedules
  replay <behaviours.json> <out.json>   TLC behaviours of MC_FutureSim replayed step by step
"""
import json
import logging
import random
import sys
import time

from harness import detsched

logging.disable(logging.CRITICAL)


class Hooks(object):
    pass


class TaskErr(Exception):
    pass


class FalsyErr(TaskErr):
    """An exception object that is falsy (an empty collection of errors, say): raised like any other."""
    def __len__(self):
        return 0


class FutRun(object):
    def __init__(self, raises, nreg, cbkinds, retobj=None, falsy_exc=False):
        self.raises, self.nreg, self.cbkinds = raises, nreg, cbkinds
        S = self.S = detsched.Sched()
        H = self.H = Hooks()
        H.srcfile = None
        H.ev, H.alloc, H.dead = self.ev, (lambda shim: 999), (lambda i: None)
        H.on_put = H.on_get = H.on_drop = lambda item: None
        th, qm = detsched.make_shims(S, H)
        tp = self.tp = detsched.load_module_with_shims("jsonrpclib.threadpool", th, qm)
        H.srcfile = tp.__file__
        self.taskdone = False
        self.obj, self.exc = (retobj if retobj is not None else object()), (FalsyErr if falsy_exc else TaskErr)("task failed")
        self.obs_td = False
        self.reg = {r: {"call": 0, "ret": 0} for r in range(1, nreg + 1)}
        self.completion = 0
        run = self

        WF = {"_FutureResult__callback": "cb", "_FutureResult__extra": "extra"}
        WE = {"_EventData__data": "data", "_EventData__exception": "exc"}

        def traced(base, watch):
            class Traced(base):
                def __getattribute__(self, name):
                    f = watch.get(name)
                    if f is None or S.me() is None:
                        return object.__getattribute__(self, name)
                    S.yield_(("rd", f))
                    v = object.__getattribute__(self, name)
                    S.emit("rd_" + f, v=run.tok(f, v))
                    return v

                def __setattr__(self, name, value):
                    f = watch.get(name)
                    if f is None or S.me() is None:
                        return object.__setattr__(self, name, value)
                    S.yield_(("wr", f))
                    object.__setattr__(self, name, value)
                    S.emit("wr_" + f, v=run.tok(f, value))
            Traced.__name__ = base.__name__
            return Traced
        tp.EventData = traced(tp.EventData, WE)
        self.fut = traced(tp.FutureResult, WF)()
        self.callbacks = {r: self.make_cb(r, cbkinds[r - 1]) for r in range(1, nreg + 1)}
        self.extras = {r: ("extra", r) for r in range(1, nreg + 1)}
        S.snap = self.snap
        S.on_emit = self.on_emit
        self.ncalls = 0

    def make_cb(self, r, kind):
        run = self

        class CB(object):
            rid = r

            def __call__(self, *args):
                S = run.S
                S.yield_(("cb", r))
                run.ncalls += 1
                a = list(args) + [None] * 3
                S.emit("cb", c={"cb": r, "d": run.tok("data", a[0]), "e": run.tok("exc", a[1]), "x": run.tok("extra", a[2]),
                                "n": len(args)})
                if kind == "raises":
                    raise RuntimeError("callback failure")
                if kind == "arity":
                    raise TypeError("callback() takes 1 positional argument but 3 were given")
        return CB()

    def tok(self, f, v):
        if f == "cb":
            return getattr(v, "rid", 0) if v is not None else 0
        if f == "extra":
            return v[1] if isinstance(v, tuple) and len(v) == 2 and v[0] == "extra" else 0
        if f == "data":
            return "R" if v is self.obj else "none" if v is None else "foreign"
        if f == "exc":
            return "E" if v is self.exc else "none" if v is None else "foreign"
        return str(v)

    def raw(self, obj, name):
        return object.__getattribute__(obj, name)

    def snap(self):
        f = self.fut
        ed = self.raw(f, "_done_event")
        lk = None
        try:
            lk = self.raw(f, "_FutureResult__lock")
        except AttributeError:
            pass
        owner = 0
        if lk is not None and getattr(lk, "owner", None) is not None:
            owner = lk.owner.idx
        return {"cb": self.tok("cb", self.raw(f, "_FutureResult__callback")),
                "extra": self.tok("extra", self.raw(f, "_FutureResult__extra")),
                "eset": self.raw(ed, "_EventData__event").flag,
                "data": self.tok("data", self.raw(ed, "_EventData__data")),
                "exc": self.tok("exc", self.raw(ed, "_EventData__exception")),
                "lock": owner, "ncalls": self.ncalls, "taskdone": self.taskdone}

    def ev(self, kind, obj, fn):
        me = self.S.me()
        if me is None:
            return
        if kind in ("is_set", "ev_wait0", "ev_wait") and me.idx == 200:
            self.obs_td = self.taskdone
        if kind == "ev_wait":
            kind = "ev_wait0"
        self.S.emit(kind, v="")

    def on_emit(self, e, t):
        idx = len(self.S.events) + 1
        if t.idx in self.reg and self.reg[t.idx]["call"] == 0:
            self.reg[t.idx]["call"] = idx
        if e["k"] == "reg_ret":
            self.reg[t.idx]["ret"] = idx
        if e["k"] == "ev_set" and self.completion == 0:
            self.completion = idx

    # ---- thread bodies
    def task(self):
        S = self.S
        S.yield_(("task",))
        self.taskdone = True
        S.emit("task_end", v="")
        if self.raises:
            raise self.exc
        return self.obj

    def executor(self):
        S = self.S
        try:
            self.fut.execute(self.task, None, None)
            r = "ok"
        except TaskErr as e:
            r = "E" if e is self.exc else "other"
        except BaseException as e:  # noqa
            r = "other:" + type(e).__name__
        S.yield_(("exec_ret",))
        S.emit("exec_ret", v=r)

    def registrar(self, r):
        S = self.S
        try:
            self.fut.set_callback(self.callbacks[r], self.extras[r])
            v = "ok"
        except BaseException as e:  # noqa
            v = "raised:" + type(e).__name__
        S.yield_(("reg_ret",))
        S.emit("reg_ret", v=v)

    def observer(self, kinds):
        S = self.S
        for kind in kinds:
            if kind == "done":
                v = "true" if self.fut.done() else "false"
            else:
                try:
                    x = self.fut.result(0)
                    v = "R" if x is self.obj else "foreign"
                except OSError:
                    v = "timeout"
                except TaskErr as e:
                    v = "E" if e is self.exc else "foreign"
                except BaseException as e:  # noqa
                    v = "other:" + type(e).__name__
            S.yield_(("obs_end",))
            S.emit("obs_end", v=v, kind=kind, td=self.obs_td)

    def spawn_all(self, obs_kinds):
        S = self.S
        S.spawn(self.executor, "exec", 100)
        for r in range(1, self.nreg + 1):
            S.spawn((lambda rr: (lambda: self.registrar(rr)))(r), "reg%d" % r, r)
        S.spawn(lambda: self.observer(obs_kinds), "obs", 200)

    def result(self, end, **kw):
        ev = []
        for e in self.S.events:
            ev.append({"thr": e["thr"], "k": e["k"], "v": e.get("v", ""), "kind": e.get("kind", ""), "td": bool(e.get("td", False)),
                       "c": e.get("c", {"cb": 0, "d": "", "e": "", "x": 0, "n": 0}), "st": e["st"]})
        h = {"cfg": {"raises": self.raises, "nreg": self.nreg, "cbkinds": self.cbkinds}, "end": end, "ev": ev,
             "reg": [self.reg[r] if self.reg[r]["ret"] else {"call": self.reg[r]["call"], "ret": 10 ** 6}
                     for r in range(1, self.nreg + 1)],
             "completion": self.completion}
        h.update(kw)
        self.S.kill_all()
        return h


def random_trace(seed):
    rnd = random.Random(seed)
    raises = rnd.random() < 0.5
    nreg = rnd.choice([1, 1, 2, 2, 3])
    kinds = [rnd.choice(["returns", "returns", "raises", "arity"]) for _ in range(nreg)]
    # the task returns "any object": an ordinary object, an Exception instance (returned, not raised), falsy values
    retobj = rnd.choice([None, None, ValueError("returned, not raised"), KeyError("k"), 0, "", [], False, TaskErr("returned")])
    R = FutRun(raises, nreg, kinds, retobj, falsy_exc=rnd.random() < 0.3)
    obs = [rnd.choice(["done", "result"]) for _ in range(rnd.randint(0, 4))]
    R.spawn_all(obs)
    S = R.S
    # bias: sometimes let one thread run for a while (completion before / after registration)
    sticky, cur = rnd.choice([0.0, 0.5, 0.85]), None
    end = "done"
    while True:
        en = [t for t in S.live() if S.is_enabled(t)]
        if not en:
            end = "done" if not S.live() else "deadlock"
            break
        if cur is not None and cur in en and rnd.random() < sticky:
            t = cur
        else:
            t = rnd.choice(en)
        cur = t
        if S.steps > 2000:
            end = "truncated"
            break
        S.step(t)
    return R.result(end, seed=seed, kind="random", obs=obs)


def replay_behaviour(beh):
    """beh: {raises, nreg, obs:[kinds], steps:[{who, st}]} ; each spec step = one event of that thread."""
    R = FutRun(beh["raises"], beh["nreg"], ["returns"] * beh["nreg"])
    R.spawn_all(beh["obs"])
    S = R.S
    diverged = ""
    k = 0
    for k, st in enumerate(beh["steps"]):
        t = S.by_idx(st["who"])
        if t is None:
            diverged = "step %d: spec moves thread %s, which has finished in the code" % (k, st["who"])
            break
        n0 = len(S.events)
        guard = 0
        while len(S.events) == n0 and t.state == "ready" and guard < 50:
            if not S.is_enabled(t):
                diverged = "step %d: spec moves %s but the code is blocked on %s" % (k, st["who"], t.op[0])
                break
            S.step(t)
            guard += 1
        if diverged:
            break
        new = S.events[n0:]
        if len(new) != 1 or new[0]["thr"] != st["who"]:
            diverged = "step %d: thread %s emitted %s" % (k, st["who"], [(e["thr"], e["k"]) for e in new])
            break
        im, sp = new[0]["st"], st["st"]
        diffs = [(key, sp[key], im[key]) for key in ("cb", "extra", "eset", "data", "exc", "lock", "ncalls", "taskdone") if sp[key] != im[key]]
        if diffs:
            diverged = "step %d (%s, event %s): state differs %s" % (k, st["who"], new[0]["k"], diffs)
            break
    end = "done"
    while True:          # continuation to the end: lowest thread id first
        en = [t for t in S.live() if S.is_enabled(t)]
        if not en:
            end = "done" if not S.live() else "deadlock"
            break
        if S.steps > 2000:
            end = "truncated"
            break
        S.step(sorted(en, key=lambda t: t.idx)[0])
    return R.result(end, seed=0, kind="replay", diverged=diverged, matched=k + (0 if diverged else 1), of=len(beh["steps"]),
                    obs=beh["obs"])


if __name__ == "__main__":
    t0 = time.time()
    if sys.argv[1] == "random":
        n, seed, out = int(sys.argv[2]), int(sys.argv[3]), sys.argv[4]
        traces = [random_trace(seed * 100003 + i) for i in range(n)]
    else:
        traces = [replay_behaviour(b) for b in json.load(open(sys.argv[2]))]
        out = sys.argv[3]
    json.dump(traces, open(out, "w"))
    print(json.dumps({"traces": len(traces), "events": sum(len(t["ev"]) for t in traces),
                      "diverged": sum(1 for t in traces if t.get("diverged")), "wall": round(time.time() - t0, 2)}))
