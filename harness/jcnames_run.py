"""C08 recorder: payloads carrying __jsonclass__ descriptors (names built from alphabet-class words enumerated by TLC,
every descriptor shape, several depths) decoded by the real jsonrpc.loads (client side) and dispatched by the real
SimpleJSONRPCDispatcher (server side), with the class translation on and off.  Observations: exception type, every call
of __import__ and every 'import' audit event during decoding, canary-module side effects, decoded value vs json.loads,
server reply and invocation log."""
import builtins
import json
import os
import random
import sys

import jsonrpclib
import jsonrpclib.config
from jsonrpclib import jsonrpc, jsonclass
from jsonrpclib.SimpleJSONRPCServer import SimpleJSONRPCDispatcher, SimpleJSONRPCServer, PooledJSONRPCServer, CGIJSONRPCRequestHandler
from harness.values import enc
from harness.errorcheck_run import Loop


class LocalCanary(object):
    """A class of the configuration's local class table (registered under the very name a descriptor carries)."""
    def __init__(self, *a, **k):
        builtins._verif_marks.append('constructed-local')


VALID_BEAN = json.dumps({"jsonrpc": "2.0", "id": 1, "result": {"__jsonclass__": ["decimal.Decimal", ["1"]]}})


def make_server(kind, cfg):
    """The object whose _marshaled_dispatch serves the request: every server-side entry point takes a Config."""
    if kind == "dispatcher":
        return SimpleJSONRPCDispatcher(config=cfg)
    if kind == "cgi":
        return CGIJSONRPCRequestHandler(config=cfg)
    cls = SimpleJSONRPCServer if kind == "simple" else PooledJSONRPCServer
    return cls(("127.0.0.1", 0), logRequests=False, config=cfg)

REP = {"letter": "aZqB", "digit": "07", "underscore": "_", "dot": ".", "space": " ", "semicolon": ";", "dash": "-", "slash": "/",
       "newline": "\n", "nul": "\x00", "nonascii_letter": "éя名\ud83d", "nonascii_digit": "٣２"}
LOG = {"on": False, "imports": [], "audit": []}
builtins._verif_marks = []
_real_import = builtins.__import__


def _imp(name, *a, **k):
    if LOG["on"]:
        LOG["imports"].append(name)
    return _real_import(name, *a, **k)


builtins.__import__ = _imp


def _audit(event, args):
    if LOG["on"] and event == "import":
        LOG["audit"].append(str(args[0]))


sys.addaudithook(_audit)


def install_canary(d):
    with open(os.path.join(d, "verif_canary.py"), "w") as f:
        f.write("import builtins\nbuiltins._verif_marks.append('imported')\n"
                "class Canary(object):\n    def __init__(self, *a, **k):\n        builtins._verif_marks.append('constructed')\n")
    sys.path.insert(0, d)


def observe(fn):
    LOG["imports"], LOG["audit"] = [], []
    del builtins._verif_marks[:]
    LOG["on"] = True
    try:
        v = fn()
        exc = "ok"
    except BaseException as e:  # noqa
        v, exc = None, type(e).__name__
    finally:
        LOG["on"] = False
    return v, exc, len(LOG["imports"]) + len(LOG["audit"]), len(builtins._verif_marks)


def descriptor(name, dk, rnd):
    return {"wellformed_list": [name, []], "wellformed_dict": [name, {}], "len0": [], "len1": [name], "len3": [name, [], 1],
            "nonlist": rnd.choice([name, 5, None, {"a": 1}, True]), "nonstring_name": rnd.choice([[5, []], [None, []], [[name], []], [True, {}]]),
            "scalar_args": rnd.choice([[name, 5], [name, "x"], [name, None]])}[dk]


def embed(desc_obj, rnd):
    where = rnd.choice(["top", "list", "dict", "deep"])
    if where == "top":
        return desc_obj
    if where == "list":
        return [1, desc_obj]
    if where == "dict":
        return {"k": desc_obj, "n": 0}
    return [{"a": [[desc_obj]]}]


def run_one(word, dk, rnd, canary=False):
    name = "".join(rnd.choice(REP[c]) for c in word)
    if canary:
        name = "verif_canary.Canary"
    d = {"__jsonclass__": descriptor(name, dk, rnd)}
    if rnd.random() < 0.5:
        d["attr"] = 1
    x = embed(d, rnd)
    registered = (not canary) and rnd.random() < 0.3
    spath = rnd.choice(["dispatcher", "dispatcher", "simple", "pooled", "cgi"])
    cpath = rnd.choice(["loads", "proxy"])
    il_points = 60 if rnd.random() < 0.04 else 0
    late_off = rnd.random() < 0.5
    rec = {"w": list(word), "dk": dk, "name": name if len(name) < 40 else name[:40], "canary": canary, "registered": registered,
           "spath": spath, "cpath": cpath}
    resp_text = json.dumps({"jsonrpc": "2.0", "id": 1, "result": x})
    req_text = json.dumps({"jsonrpc": "2.0", "id": 1, "method": "ok", "params": [x]})
    derived = rnd.random() < 0.3
    for on in (True, False):
        cfg = jsonrpclib.config.Config(use_jsonclass=on)
        if derived:
            cfg = cfg.copy()             # a working copy derived from the application's configuration (as the library does itself)
        tag = "on" if on else "off"
        if registered:
            if hasattr(cfg.classes, "add"):
                cfg.classes.add(LocalCanary, name)
            else:
                cfg.classes[name or LocalCanary.__name__] = LocalCanary      # (Config.copy() hands out a plain dict)
        if cpath == "loads" and on and il_points:
            # two threads decode the same payload, the second one between two lines of the first (after a valid bean has
            # been decoded by this process): both behave as a single decoder does
            from harness import interleave
            jsonrpc.loads(VALID_BEAN, jsonrpclib.config.Config())
            fa = lambda: jsonrpc.loads(resp_text, cfg)
            kpts = interleave.sample_points(interleave.points(fa), il_points, rnd)

            def both():
                outs = []
                for k in kpts:
                    LOG["on"] = False                                          # (another bean has just been decoded:
                    jsonrpc.loads(VALID_BEAN, jsonrpclib.config.Config())      #  not part of the observation)
                    LOG["on"] = True
                    ra, rb, fired = interleave.run(fa, lambda: jsonrpc.loads(resp_text, cfg), k)
                    outs += [ra, rb]
                # what a caller of either thread saw: a value one of them built, else the exception that is NOT the
                # translator's own refusal, else that refusal
                oks = [r for r in outs if r[0] == "ok"]
                if oks and len(oks) < len(outs):
                    return oks[0][1]
                if oks:
                    return oks[0][1]
                odd = [r[1] for r in outs if not r[1].startswith("TranslationError")]
                name = (odd or [outs[0][1]])[0].split(":")[0]
                raise {"TranslationError": jsonclass.TranslationError, "ValueError": ValueError, "TypeError": TypeError,
                       "IndexError": IndexError, "KeyError": KeyError, "AttributeError": AttributeError,
                       "ImportError": ImportError, "ModuleNotFoundError": ModuleNotFoundError}.get(name, RuntimeError)(name)
            v, exc, nimp, marks = observe(both)
            v = v["result"] if exc == "ok" and isinstance(v, dict) and "result" in v else v
        elif cpath == "loads":
            v, exc, nimp, marks = observe(lambda: jsonrpc.loads(resp_text, cfg))
            v = v["result"] if exc == "ok" and isinstance(v, dict) and "result" in v else v
        elif cpath == "proxy" and not on and late_off:
            # the proxy was built (with its own version=) while the translation was still on; it is switched off on the
            # Config object afterwards: what is received from then on is not interpreted
            cfg2 = jsonrpclib.config.Config(use_jsonclass=True, version=2.0)
            p2 = jsonrpc.ServerProxy("http://loop/", transport=Loop(resp_text), config=cfg2, version=1.0)
            cfg2.use_jsonclass = False
            v, exc, nimp, marks = observe(lambda: p2.ok())
        else:
            v, exc, nimp, marks = observe(lambda: jsonrpc.ServerProxy("http://loop/", transport=Loop(resp_text), config=cfg).ok())
        rec["client_" + tag] = {"exc": exc, "imports": nimp, "marks": marks, "plain": exc == "ok" and enc(v) == enc(json.loads(resp_text)["result"])}
        calls = []
        disp = make_server(spath, cfg)

        def ok(*a):
            calls.append(a)
            return a[0] if a else None
        disp.register_function(ok, "ok")
        out, exc2, nimp2, marks2 = observe(lambda: disp._marshaled_dispatch(req_text))
        code, verbatim = 0, False
        try:
            if out:
                out.encode("utf-8")      # a reply that cannot be put on the wire is no answer
            r = json.loads(out) if out else None
            if isinstance(r, dict) and isinstance(r.get("error"), dict):
                code = r["error"].get("code")
            elif isinstance(r, dict):
                verbatim = enc(r.get("result")) == enc(x) and len(calls) == 1 and enc(calls[0][0]) == enc(x)
        except (TypeError, ValueError):          # (UnicodeEncodeError is a ValueError)
            code = -1
        if spath in ("simple", "pooled"):
            try:
                disp.server_close()
            except BaseException:  # noqa
                pass
        rec["server_" + tag] = {"exc": exc2, "imports": nimp2, "marks": marks2, "code": code if isinstance(code, int) else -2,
                                "calls": len(calls), "verbatim": verbatim}
    return rec


if __name__ == "__main__":
    words = json.load(open(sys.argv[1]))
    out, seed, rundir = sys.argv[2], int(sys.argv[3]), sys.argv[4]
    install_canary(rundir)
    rnd = random.Random(seed)
    kinds = ["wellformed_list", "wellformed_dict", "len0", "len1", "len3", "nonlist", "nonstring_name", "scalar_args"]
    recs = []
    for w in words:
        dks = ["wellformed_list", rnd.choice(kinds)] if len(w["w"]) > 2 else kinds
        for dk in dks:
            recs.append(run_one(w["w"], dk, rnd))
    for dk in kinds:
        for _ in range(6):
            recs.append(run_one(["letter"], dk, rnd, canary=True))
    json.dump(recs, open(out, "w"))
    print(len(recs))
