"""C10 constructor contract: concretises argument classes, constructs the real ThreadPool, records the outcome."""
import json, random, sys, logging
logging.disable(logging.CRITICAL)
import jsonrpclib.threadpool as tp

def describe(v):
    if isinstance(v, bool):
        return {"cls": "bool", "iv": int(v)}
    if isinstance(v, int):
        return {"cls": "int", "iv": v}
    if isinstance(v, float):
        return {"cls": "float", "iv": int(v)}
    if isinstance(v, str):
        try:
            return {"cls": "intstr", "iv": int(v)}
        except ValueError:
            return {"cls": "badstr", "iv": 0}
    if v is None:
        return {"cls": "none", "iv": 0}
    return {"cls": "other", "iv": 0}

def pool_values(rnd):
    base = [-5, -1, 0, 1, 2, 3, 7, 30, 0.1, 0.9, 1.0, 2.5, 7.99, -0.5, -3.2, "3", " 4 ", "0", "-2", "abc", "", "2.5",
            None, True, False, [], {}, (1,), object()]
    base += [rnd.randint(-50, 400), round(rnd.uniform(-5, 60), 3), str(rnd.randint(-9, 99))]
    return base

def main(out, seed, n):
    rnd = random.Random(seed)
    vals = pool_values(rnd)
    pairs = [(a, b) for a in vals for b in vals]
    rnd.shuffle(pairs)
    # always keep the corner cases, sample the rest
    fixed = [(a, b) for a in (0, 1, 2, -1, 0.1, "3", "abc", None, True) for b in (-1, 0, 1, 2, 5, 0.5, "1", "x", None)]
    cases = []
    for mx, mn in fixed + pairs[:n]:
        try:
            p = tp.ThreadPool(mx, mn)
            o = {"kind": "ok", "max": p._max_threads, "min": p._min_threads}
            if not (type(o["max"]) is int and type(o["min"]) is int):        # (bool / float / str stored raw: not the documented int)
                o = {"kind": "badtype", "max": 0, "min": 0}
        except ValueError:
            o = {"kind": "ValueError", "max": 0, "min": 0}
        except BaseException as e:  # noqa
            o = {"kind": type(e).__name__, "max": 0, "min": 0}
        cases.append({"cls": describe(mx)["cls"] + "/" + describe(mn)["cls"], "mx": describe(mx), "mn": describe(mn),
                      "maxr": repr(mx), "minr": repr(mn), "out": o})
    json.dump(cases, open(out, "w"))
    print(len(cases))

if __name__ == "__main__":
    main(sys.argv[1], int(sys.argv[2]), int(sys.argv[3]))
