"""Line-level interleaving of two calls into the library, without any hook in it (DESIGN II.4, round 3).

`run(fa, fb, k)` runs fa() in the calling thread under a line tracer restricted to the files of the jsonrpclib package
(plus `extra_files`); when the k-th line event is reached, thread A is held there while fb() runs to completion in a
second thread (or until `hold` seconds have passed - fb may legitimately wait for a lock that A holds), then A goes on.
`points(fa)` counts the line events of fa() alone.  Both calls' outcomes are returned; they are judged like any other
call (a library function that is safe to call from two threads gives each caller what it would have got alone)."""
import os
import sys
import threading

import jsonrpclib

PKG = os.path.dirname(os.path.abspath(jsonrpclib.__file__))


def _in_scope(filename, extra):
    return filename.startswith(PKG) or filename in extra


def outcome(fn):
    try:
        return ("ok", fn())
    except BaseException as e:  # noqa
        return ("exc", "%s: %s" % (type(e).__name__, str(e)[:100]))


def points(fa, extra_files=()):
    n = [0]

    def local(frame, event, arg):
        if event == "line":
            n[0] += 1
        return local

    def glob(frame, event, arg):
        return local if _in_scope(frame.f_code.co_filename, extra_files) else None
    sys.settrace(glob)
    try:
        outcome(fa)
    finally:
        sys.settrace(None)
    return n[0]


def run(fa, fb, k, extra_files=(), hold=2.0):
    n = [0]
    rb = {}
    tb = []

    def fire():
        t = threading.Thread(target=lambda: rb.update(r=outcome(fb)), daemon=True)
        tb.append(t)
        t.start()
        t.join(hold)

    def local(frame, event, arg):
        if event == "line":
            n[0] += 1
            if n[0] == k:
                sys.settrace(None)
                try:
                    fire()
                finally:
                    sys.settrace(glob)
        return local

    def glob(frame, event, arg):
        return local if _in_scope(frame.f_code.co_filename, extra_files) else None
    sys.settrace(glob)
    try:
        ra = outcome(fa)
    finally:
        sys.settrace(None)
    for t in tb:
        t.join(30.0)                 # (it only had to wait for A if it needed something A held; a loaded machine is not a verdict)
    fired = bool(tb)
    if not fired:
        rb["r"] = outcome(fb)
    return ra, rb.get("r", ("exc", "no outcome: the second call did not finish")), fired


def sample_points(n, limit, rnd):
    """All points when there are few, else `limit` of them, spread evenly with a random phase."""
    if n <= limit:
        return list(range(1, n + 1))
    step = n / float(limit)
    ph = rnd.random() * step
    return sorted(set(min(n, max(1, int(ph + i * step) + 1)) for i in range(limit)))
