"""Shared machinery of every check: run directory, TLC driver, verdict bookkeeping,
known-finding matching, evidence and replay files.

Verdict contract (DESIGN section 1):
  exit 0  every explored real-code execution satisfied the TLA+ property predicates
          (or matched an *open* entry of known_findings.txt)
  exit 1  a real-code execution falsified a property predicate -> VIOLATION line + replay file
  exit 2  machinery failure (TLC crashed, spec rejected, harness could not import /repo)
"""
import hashlib
import uuid
import json
import os
import re
import shutil
import subprocess
import sys
import time

VERIF = os.path.dirname(os.path.dirname(os.path.abspath(__file__)))
REPO = os.environ.get("VERIF_REPO", "/repo")
SPEC = os.path.join(VERIF, "spec")
JAR = "/opt/veriftools/tla/tla2tools.jar:/opt/veriftools/tla/CommunityModules-deps.jar"
PY = "/venv/bin/python"
GUARD = "JSONRPCLIB_VERIF"


class MachineryError(Exception):
    pass


# ----------------------------------------------------------------------------- TLC
class TLCResult(object):
    def __init__(self, out, rc, wall):
        self.out, self.rc, self.wall = out, rc, wall
        m = re.search(r"(\d+) states generated, (\d+) distinct states found", out)
        self.generated = int(m.group(1)) if m else 0
        self.distinct = int(m.group(2)) if m else 0
        ms = re.findall(r"Progress: (\d+) states checked, (\d+) traces generated", out)
        self.sim_traces = 0
        if ms and not m:                      # simulation mode: states visited along the generated behaviours
            self.generated, self.sim_traces = int(ms[-1][0]), int(ms[-1][1])
        m = re.search(r"The depth of the complete state graph search is (\d+)", out)
        self.depth = int(m.group(1)) if m else 0
        self.violated = re.findall(r"Invariant (\S+) is violated", out)
        self.violated += re.findall(r"Action property (\S+) is violated", out)
        if "Temporal properties were violated" in out:
            self.violated.append("<temporal>")
        self.deadlock = "Deadlock reached" in out
        self.errors = [l for l in out.splitlines() if l.startswith("Error:")]
        self.finished = "Model checking completed" in out or "Finished in" in out

    @property
    def clean(self):
        return self.rc == 0 and not self.violated and not self.errors

    def prints(self):
        """PrintT outputs (TLC prints the value on its own line)."""
        return [l for l in self.out.splitlines() if l.startswith('"') or l.startswith("<<") or l.startswith("[")]

    def coverage_zero_actions(self):
        """With -coverage 1: names of top-level actions that were never taken."""
        zero = []
        for m in re.finditer(r"^<(\w+) line \d+, col \d+ to line \d+, col \d+ of module (\w+)>: (\d+):(\d+)", self.out, re.M):
            if int(m.group(3)) == 0 and int(m.group(4)) == 0:
                zero.append(m.group(1))
        return sorted(set(zero))


def tlc(module, cfg=None, env=None, workers=8, timeout=600, extra=(), cwd=SPEC, metadir=None, heap="4g", dfs=False):
    """Runs TLC on spec/<module>.tla with spec/<cfg>. Returns TLCResult. Raises MachineryError on crash."""
    cfg = cfg or module + ".cfg"
    metadir = metadir or os.path.join(RunCtx.current_dir(), "tlc-%s-%s" % (module, uuid.uuid4().hex[:12]))
    cmd = ["timeout", str(timeout), "java", "-XX:+UseParallelGC", "-XX:ParallelGCThreads=%d" % max(2, min(8, workers)), "-Xmx" + heap]
    if dfs:
        cmd.append("-Dtlc2.tool.queue.IStateQueue=StateDeque")
    cmd += ["-cp", JAR, "tlc2.TLC", "-workers", str(workers), "-metadir", metadir, "-noGenerateSpecTE",
            "-config", cfg] + list(extra) + [module]
    e = dict(os.environ)
    e.update(env or {})
    t0 = time.time()
    p = subprocess.run(cmd, cwd=cwd, env=e, stdout=subprocess.PIPE, stderr=subprocess.STDOUT, universal_newlines=True)
    res = TLCResult(p.stdout, p.returncode, time.time() - t0)
    shutil.rmtree(metadir, ignore_errors=True)
    if p.returncode == 124:
        raise MachineryError("TLC timed out after %ss on %s/%s" % (timeout, module, cfg))
    # TLC exit codes: 0 ok, 10 assumption, 11 deadlock, 12 safety violation, 13 liveness; >=75 errors/crash
    if p.returncode not in (0, 10, 11, 12, 13):
        seen_l, keep = set(), []
        for l in p.stdout.splitlines():
            if re.match(r"^(Parsing|Semantic|Linting|\s*\||\d+\. Line)", l) or (l.strip() and l in seen_l):
                continue
            seen_l.add(l)
            keep.append(l)
        brief = "\n".join(keep)
        raise MachineryError("TLC failed (rc=%s) on %s/%s:\n%s" % (p.returncode, module, cfg, brief[-3000:]))
    return res


# ----------------------------------------------------------------------------- known findings
def load_known():
    """known_findings.txt lines:
         open: property=<id> sig=<signature> :: <what fails>
         fixed: property=<id> <commit> <what failed>
    Only 'open' entries can turn a violation into a KNOWN-FINDING line."""
    path = os.path.join(VERIF, "known_findings.txt")
    res = []
    if not os.path.exists(path):
        return res
    for line in open(path):
        line = line.strip()
        m = re.match(r"open: property=(\S+) sig=(\S+) :: (.*)$", line)
        if m:
            res.append({"property": m.group(1), "sig": m.group(2), "what": m.group(3)})
    return res


# ----------------------------------------------------------------------------- run context
class RunCtx(object):
    _cur = None

    def __init__(self, prop, tier, seed):
        self.prop, self.tier, self.seed = prop, tier, seed
        self.t0 = time.time()
        self.dir = os.path.join(VERIF, ".run", "%s-%d" % (prop, os.getpid()))
        shutil.rmtree(self.dir, ignore_errors=True)
        os.makedirs(self.dir)
        RunCtx._cur = self
        self.known = [k for k in load_known() if k["property"] == prop]
        self.violations = []       # dicts: sig, what, replay
        self.known_hits = {}       # sig -> count
        self.drift = []
        self.cov = {"states": 0, "transitions": 0, "traces_validated_against_impl": 0, "samples": [],
                    "evaluations": 0, "distinct_nontrivial": 0, "rule": "", "trusted_base": [], "model_runs": [],
                    "conformance": {}}
        self.assumptions = []
        self._distinct = set()

    @staticmethod
    def current_dir():
        if RunCtx._cur is not None:
            return RunCtx._cur.dir
        d = os.path.join(VERIF, ".run", "adhoc-%d" % os.getpid())
        os.makedirs(d, exist_ok=True)
        return d

    def path(self, name):
        return os.path.join(self.dir, name)

    # -- model runs
    def model(self, module, cfg=None, expect_violated=(), **kw):
        """Exhaustive / simulation TLC run of the design model. The model must be clean except for the
        invariants named in expect_violated (deviation actions behind known findings are switched by constants,
        so normally nothing is expected). A dirty model is a machinery failure, never a verdict."""
        r = tlc(module, cfg, **kw)
        self.cov["states"] += r.distinct
        self.cov["transitions"] += r.generated
        self.cov["model_runs"].append({"module": module, "cfg": cfg or module + ".cfg", "distinct_states": r.distinct,
                                       "states_generated": r.generated, "simulated_behaviours": r.sim_traces, "depth": r.depth, "wall_s": round(r.wall, 1),
                                       "violated": r.violated})
        bad = [v for v in r.violated if v not in expect_violated]
        if bad or r.errors and not r.violated:
            brief = "\n".join(l for l in r.out.splitlines() if not re.match(r"^\s*(\||<|line \d+)", l))
            raise MachineryError("model %s/%s is not clean: %s\n%s" % (module, cfg, bad or r.errors, brief[-2500:]))
        return r

    # -- verdicts
    def count(self, key, distinct=True):
        self.cov["evaluations"] += 1
        if distinct:
            self._distinct.add(key if isinstance(key, str) else json.dumps(key, sort_keys=True, default=str))

    def sample(self, obj, limit=6):
        if len(self.cov["samples"]) < limit:
            self.cov["samples"].append(obj)

    def violation(self, sig, what, replay):
        """A real-code execution falsified a property predicate."""
        for k in self.known:
            if k["sig"] == sig:
                self.known_hits[sig] = self.known_hits.get(sig, 0) + 1
                return False
        for v in self.violations:
            if v["sig"] == sig:
                v["count"] += 1
                return True
        os.makedirs(os.path.join(VERIF, "replays"), exist_ok=True)
        h = hashlib.sha1(json.dumps(replay, sort_keys=True, default=str).encode()).hexdigest()[:10]
        path = os.path.join(VERIF, "replays", "%s-%s.json" % (self.prop, h))
        replay = dict(replay)
        replay.update({"property": self.prop, "sig": sig, "what": what, "seed": self.seed, "tier": self.tier,
                       "tree": git_describe()})
        with open(path, "w") as f:
            json.dump(replay, f, indent=1, sort_keys=True, default=str)
        self.violations.append({"sig": sig, "what": what, "replay": path, "count": 1})
        return True

    def note_drift(self, what):
        if len(self.drift) < 50:
            self.drift.append(what)

    # -- finish
    def finish(self, extra=None):
        for k in self.known:
            if k["sig"] in self.known_hits:
                print("KNOWN-FINDING: property=%s %s [sig=%s, %d occurrence(s) in this run]" % (
                    self.prop, k["what"], k["sig"], self.known_hits[k["sig"]]))
        for v in self.violations:
            print("VIOLATION property=%s replay=%s" % (self.prop, v["replay"]))
            print("  what: %s (sig=%s, x%d)" % (v["what"], v["sig"], v["count"]))
        for d in self.drift[:10]:
            print("DRIFT (informational, no verdict): %s" % d)
        cov = self.cov
        cov["distinct_nontrivial"] = len(self._distinct)
        cov["drift"] = self.drift
        cov["known_findings_seen"] = self.known_hits
        if extra:
            cov.update(extra)
        if not cov["samples"]:
            cov["samples"] = ["<no sample recorded>"]
        ev = {"property_id": self.prop, "tier": self.tier, "seed": self.seed, "level": "model_checking",
              "coverage": cov, "assumptions": self.assumptions, "wall_s": round(time.time() - self.t0, 2),
              "violations": len(self.violations)}
        # (seed evaluations of the tools_* scripts judge a modified copy of the repository: their evidence goes elsewhere)
        evdir = os.environ.get("VERIF_EVIDENCE_DIR") or os.path.join(VERIF, "evidence")
        os.makedirs(evdir, exist_ok=True)
        with open(os.path.join(evdir, self.prop + ".json"), "w") as f:
            json.dump(ev, f, indent=1, sort_keys=True, default=str)
        if not os.environ.get("VERIF_KEEP_RUN"):               # (debugging aid: keep the scratch data of this run)
            shutil.rmtree(self.dir, ignore_errors=True)
        try:
            os.rmdir(os.path.join(VERIF, ".run"))
        except OSError:
            pass
        print("%s %s: states=%d transitions=%d impl-traces=%d evaluations=%d distinct=%d drift=%d known=%d violations=%d wall=%.1fs" % (
            self.prop, self.tier, cov["states"], cov["transitions"], cov["traces_validated_against_impl"],
            cov["evaluations"], cov["distinct_nontrivial"], len(self.drift), sum(self.known_hits.values()),
            len(self.violations), time.time() - self.t0))
        return 1 if self.violations else 0


def git_describe():
    try:
        h = subprocess.check_output(["git", "-C", REPO, "rev-parse", "--short", "HEAD"], universal_newlines=True).strip()
        d = subprocess.call(["git", "-C", REPO, "diff", "--quiet"])
        return h + ("+dirty" if d else "")
    except Exception:
        return "unknown"


def run_py(script, args=(), timeout=600, env=None, py=PY, stdin=None):
    """Runs a harness subprocess against /repo's working tree (fresh interpreter => fresh import of /repo)."""
    e = dict(os.environ)
    e["PYTHONPATH"] = REPO + os.pathsep + VERIF
    e["PYTHONHASHSEED"] = e.get("PYTHONHASHSEED", "0")
    e[GUARD] = "1"
    e["PYTHONDONTWRITEBYTECODE"] = "1"
    e.update(env or {})
    cmd = ["timeout", str(timeout), py, script] + [str(a) for a in args]
    p = subprocess.run(cmd, env=e, cwd=VERIF, stdout=subprocess.PIPE, stderr=subprocess.PIPE, universal_newlines=True,
                       input=stdin)
    if p.returncode != 0:
        raise MachineryError("harness %s failed rc=%s\nstdout: %s\nstderr: %s" % (script, p.returncode, p.stdout[-2000:], p.stderr[-4000:]))
    return p.stdout


def chunks(lst, n):
    for i in range(0, len(lst), n):
        yield lst[i:i + n]
