"""Controlled (baton-passing) scheduler and shim modules for `threading` / `queue`.

Each logical thread is a real OS thread, but exactly one runs at a time.  At every yield point the
thread hands the baton back to the driver, publishing the operation it is about to perform, a guard
(is the operation enabled?) and whether it may time out.  The driver (a chooser function, a recorded
schedule or a replayer of TLC behaviours) decides who runs next, so a recorded trace is a *total*
order and every schedule is data.  See DESIGN 4.2.
"""
import collections
import importlib
import os
import sys
import types
import _thread
import threading as _rt


class Deadlock(Exception):
    pass


class CThread(object):
    def __init__(self, name, idx):
        self.name, self.idx = name, idx
        self.sem = _rt.Semaphore(0)
        self.state = "ready"           # ready | finished
        self.op = ("begin",)
        self.guard = None
        self.can_timeout = False
        self.timed_out = False
        self.exc = None
        self.shim = None
        self.nev = 0                   # events emitted by this thread


class Sched(object):
    def __init__(self, trace_files=None):
        self.threads = []
        self.back = _rt.Semaphore(0)
        self.by_ident = {}
        self.events = []
        self.snap = lambda: {}
        self.steps = 0
        self.trace_files = trace_files
        self.on_emit = None
        self.abort = False
        self.stuck = []

    def me(self):
        return self.by_ident.get(_thread.get_ident())

    def yield_(self, op, guard=None, can_timeout=False):
        t = self.me()
        if t is None:
            return False
        t.op, t.guard, t.can_timeout, t.timed_out = op, guard, can_timeout, False
        self.back.release()
        t.sem.acquire()
        if self.abort:
            raise SystemExit
        return t.timed_out

    def emit(self, k, **kw):
        t = self.me()
        if t is None:
            return
        e = {"thr": t.idx, "k": k}
        e.update(kw)
        if self.on_emit is not None:
            self.on_emit(e, t)
        e["st"] = self.snap()
        t.nev += 1
        self.events.append(e)

    def spawn(self, fn, name, idx):
        t = CThread(name, idx)
        self.threads.append(t)

        def run():
            self.by_ident[_thread.get_ident()] = t
            t.native = _rt.get_native_id() if hasattr(_rt, "get_native_id") else None
            t.sem.acquire()
            if self.abort:
                t.state = "finished"
                return
            if self.trace_files:
                sys.settrace(self._tracer)
            try:
                fn()
            except SystemExit:
                pass
            except BaseException as e:      # noqa
                t.exc = e
            finally:
                sys.settrace(None)
                t.state = "finished"
                t.op = ("finished",)
                if not self.abort:
                    self.back.release()
        th = _rt.Thread(target=run, daemon=True)
        th.start()
        return t

    def _tracer(self, frame, event, arg):
        if frame.f_code.co_filename in self.trace_files:
            return self._ltracer
        return None

    def _ltracer(self, frame, event, arg):
        if event == "line":
            self.yield_(("line", frame.f_code.co_name, frame.f_lineno))
        return self._ltracer

    # ---- driver side
    def live(self):
        return [t for t in self.threads if t.state == "ready"]

    def is_enabled(self, t):
        return t.state == "ready" and (t.guard is None or t.guard())

    STEP_TIMEOUT = 20.0          # a thread BLOCKED for that long in something the scheduler does not control is "stuck"
    STARVED_LIMIT = 240.0        # ... while one that is merely not given the processor (overloaded machine) is waited for
    SPIN_LIMIT = 10.0            # ... unless it has burnt that much processor time of its own without yielding (busy loop)

    @staticmethod
    def _cpu_seconds(native):
        """Processor time (user + system) consumed so far by an OS thread of this process."""
        try:
            with open("/proc/self/task/%d/stat" % native) as f:
                fields = f.read().rsplit(")", 1)[1].split()
            return (int(fields[11]) + int(fields[12])) / float(os.sysconf("SC_CLK_TCK"))
        except (OSError, IndexError, TypeError, ValueError):
            return 0.0

    @staticmethod
    def _os_state(native):
        """State letter of an OS thread of this process (R running / runnable, S sleeping, D disk wait ...), or '?'."""
        try:
            with open("/proc/self/task/%d/stat" % native) as f:
                return f.read().rsplit(")", 1)[1].split()[0]
        except (OSError, IndexError, TypeError):
            return "?"

    def step(self, t, timeout=False):
        """Runs thread t until its next yield point (or its end).  A thread that does not come back is either blocked in a
        call the scheduler does not control (a real lock / event / socket) or simply not scheduled by an overloaded
        machine; the two are told apart by the thread's OS state: only a thread seen SLEEPING at every look for
        STEP_TIMEOUT seconds (or not back after STARVED_LIMIT) is marked "stuck" - it is never scheduled again and the
        run goes on with the others (drivers report it as a blocked thread)."""
        assert t.state == "ready"
        t.timed_out = timeout
        self.steps += 1
        t.sem.release()
        waited, asleep = 0.0, 0.0
        cpu0 = self._cpu_seconds(getattr(t, "native", None))
        while not self.back.acquire(timeout=1.0):
            waited += 1.0
            if self._cpu_seconds(getattr(t, "native", None)) - cpu0 >= self.SPIN_LIMIT:
                t.state = "stuck"                # it has had plenty of processor time and still has not yielded: a busy loop
                self.stuck.append(t.idx)
                return
            # blocked for good = the thread sleeps AND no other thread of this process is runnable (a runnable one may hold
            # the interpreter lock the stepped thread is waiting for, and be starved of processor time itself)
            st = self._os_state(getattr(t, "native", None))
            busy = False
            if st in ("S", "D", "?"):
                me = _rt.get_native_id() if hasattr(_rt, "get_native_id") else -1
                try:
                    for tid in os.listdir("/proc/self/task"):
                        if int(tid) != me and self._os_state(int(tid)) == "R":
                            busy = True
                            break
                except OSError:
                    pass
            asleep = asleep + 1.0 if (st in ("S", "D", "?") and not busy) else 0.0
            if asleep >= self.STEP_TIMEOUT or waited >= self.STARVED_LIMIT:
                t.state = "stuck"
                self.stuck.append(t.idx)
                return

    def by_idx(self, idx):
        for t in self.threads:
            if t.idx == idx and t.state == "ready":
                return t
        return None

    def kill_all(self):
        """Releases every parked OS thread so that the process does not accumulate them."""
        self.abort = True
        for t in self.threads:
            if t.state == "ready":
                t.sem.release()


def caller_fn(filename, depth=2):
    f = sys._getframe(depth)
    while f is not None and f.f_code.co_filename != filename:
        f = f.f_back
    return f.f_code.co_name if f else "?"


def make_shims(S, hooks):
    """hooks: object with callbacks
         ev(kind, obj, fn)            -> called *after* the operation took effect, baton still held
         alloc(shim_thread) -> idx    -> logical id of a new thread
         dead(idx)
       and attribute `srcfile` (file whose function names are reported)."""
    th = types.ModuleType("threading")
    qm = types.ModuleType("queue")

    def fn():
        return caller_fn(hooks.srcfile, 3)

    class Lock(object):
        def __init__(self):
            self.owner = None
            self.depth = 0
            self.re = False

        def acquire(self, blocking=True, timeout=-1):
            me = S.me()
            S.yield_(("acquire", self), guard=lambda: self.owner is None or (self.re and self.owner is me))
            self.owner = me
            self.depth += 1
            if self.depth == 1:
                hooks.ev("lock", self, fn())
            return True

        def release(self):
            if self.depth == 1:
                S.yield_(("release", self))
            self.depth -= 1
            if self.depth == 0:
                self.owner = None
                hooks.ev("unlock", self, fn())

        def locked(self):
            return self.owner is not None

        __enter__ = acquire

        def __exit__(self, *a):
            self.release()

    class RLock(Lock):
        def __init__(self):
            Lock.__init__(self)
            self.re = True

    class Event(object):
        def __init__(self):
            self.flag = False

        def is_set(self):
            S.yield_(("is_set", self))
            r = self.flag
            hooks.ev("is_set", self, fn())
            return r

        isSet = is_set

        def set(self):
            S.yield_(("set", self))
            self.flag = True
            hooks.ev("ev_set", self, fn())

        def clear(self):
            S.yield_(("clear", self))
            self.flag = False
            hooks.ev("ev_clear", self, fn())

        def wait(self, timeout=None):
            if timeout is not None and timeout <= 0:
                S.yield_(("wait0", self))
                r = self.flag
                hooks.ev("ev_wait0", self, fn())
                return r
            S.yield_(("wait", self), guard=lambda: self.flag, can_timeout=timeout is not None)
            r = self.flag
            hooks.ev("ev_wait", self, fn())
            return r

    class Condition(object):
        def __init__(self, lock=None):
            self.lock = lock if lock is not None else RLock()
            self.waiters = []
            self.acquire = self.lock.acquire
            self.release = self.lock.release

        def __enter__(self):
            return self.lock.acquire()

        def __exit__(self, *a):
            self.lock.release()

        def wait(self, timeout=None):
            tok = [False]
            self.waiters.append(tok)
            saved = self.lock.depth
            self.lock.depth, self.lock.owner = 0, None
            me = S.me()
            S.yield_(("cond_wait", self), guard=lambda: tok[0], can_timeout=timeout is not None)
            r = tok[0]
            if tok in self.waiters:
                self.waiters.remove(tok)
            S.yield_(("cond_reacquire", self), guard=lambda: self.lock.owner is None)
            self.lock.owner, self.lock.depth = me, saved
            hooks.ev("cond_wait", self, fn())
            return r

        def notify_all(self):
            for w in self.waiters:
                w[0] = True
            self.waiters = []

        def notify(self, n=1):
            for w in self.waiters[:n]:
                w[0] = True
            self.waiters = self.waiters[n:]

        notifyAll = notify_all

    class Thread(object):
        def __init__(self, group=None, target=None, name=None, args=(), kwargs=None, daemon=None):
            self.target, self.name, self.args, self.kwargs = target, name, args, kwargs or {}
            self.daemon = daemon
            self.ct = None
            self.idx = None

        def start(self):
            S.yield_(("thread_start", self))
            idx = hooks.alloc(self)
            self.idx = idx

            def body():
                try:
                    self.target(*self.args, **self.kwargs)
                finally:
                    S.yield_(("thread_exit", self))
                    hooks.dead(idx)
                    hooks.ev("thread_exit", self, "?")
            self.ct = S.spawn(body, self.name, idx)
            self.ct.shim = self
            hooks.ev("thread_start", self, fn())

        def is_alive(self):
            return self.ct is not None and self.ct.state != "finished"

        isAlive = is_alive

        def join(self, timeout=None):
            # a poll loop around join(timeout) is a pure wait: the shim returns only when the thread is dead
            S.yield_(("thread_join", self), guard=lambda: not self.is_alive())
            hooks.ev("thread_join", self, fn())

    def current_thread():
        me = S.me()
        return me.shim if me is not None and me.shim is not None else _rt.current_thread()

    th.Lock, th.RLock, th.Event, th.Condition, th.Thread = Lock, RLock, Event, Condition, Thread
    th.current_thread = th.currentThread = current_thread
    th.get_ident = _thread.get_ident

    class Empty(Exception):
        pass

    class Full(Exception):
        pass

    class Queue(object):
        def __init__(self, maxsize=0):
            self.maxsize = maxsize
            self.queue = collections.deque()
            self._unfinished = 0
            self.mutex = Lock()
            self.all_tasks_done = Condition(self.mutex)

        # plain attribute in the real class; a property here so that a read is a yield point / event
        @property
        def unfinished_tasks(self):
            if S.me() is None:
                return self._unfinished
            S.yield_(("unfinished_read", self))
            r = self._unfinished
            hooks.ev("unfinished_read", self, fn())
            return r

        def qsize(self):
            S.yield_(("qsize", self))
            r = len(self.queue)
            hooks.ev("qsize", self, fn())
            return r

        def empty(self):
            S.yield_(("qempty", self))
            r = not self.queue
            hooks.ev("qempty", self, fn())
            return r

        def full(self):
            return 0 < self.maxsize <= len(self.queue)

        def put(self, item, block=True, timeout=None):
            if self.maxsize > 0:
                tmo = S.yield_(("qput", self), guard=lambda: len(self.queue) < self.maxsize,
                               can_timeout=(not block) or timeout is not None)
                if tmo:
                    hooks.ev("qput_full", self, fn())
                    raise Full
            else:
                S.yield_(("qput", self))
            self.queue.append(item)
            self._unfinished += 1
            hooks.on_put(item)
            hooks.ev("qput", self, fn())

        def put_nowait(self, item):
            return self.put(item, False)

        def get(self, block=True, timeout=None):
            if not block:
                return self.get_nowait()
            tmo = S.yield_(("qget", self), guard=lambda: len(self.queue) > 0, can_timeout=timeout is not None)
            if tmo:
                hooks.ev("qget_empty", self, fn())
                raise Empty
            it = self.queue.popleft()
            hooks.on_get(it)
            hooks.ev("qget", self, fn())
            return it

        def get_nowait(self):
            S.yield_(("qget_nowait", self))
            if not self.queue:
                hooks.ev("qget_nowait_empty", self, fn())
                raise Empty
            it = self.queue.popleft()
            hooks.on_drop(it)
            hooks.ev("qget_nowait", self, fn())
            return it

        def task_done(self):
            S.yield_(("task_done", self))
            if self._unfinished <= 0:
                raise ValueError("task_done() called too many times")
            self._unfinished -= 1
            if self._unfinished == 0:
                self.all_tasks_done.notify_all()
            hooks.ev("task_done", self, fn())

        def join(self):
            S.yield_(("qjoin", self), guard=lambda: self._unfinished == 0)
            hooks.ev("qjoin", self, fn())

    qm.Queue, qm.Empty, qm.Full = Queue, Empty, Full
    return th, qm


def trace_fields(S, cls, names, lock_attr):
    """Turns the named instance fields of `cls` into scheduling points: a read or a write by a controlled thread that
    does NOT hold the object's lock (attribute `lock_attr`, a shim lock) first yields to the scheduler (operation
    ("fld_read" | "fld_write", name)), so that an unprotected read-modify-write can be interleaved with another
    thread's update.  Reads under the lock are not scheduling points; no event is emitted either way."""
    def make(name):
        slot = "_traced_" + name

        def unprotected(obj):
            me = S.me()
            if me is None:
                return False
            lk = obj.__dict__.get(lock_attr)
            return lk is None or getattr(lk, "owner", None) is not me

        def fget(obj):
            v = obj.__dict__[slot]
            if unprotected(obj):
                S.yield_(("fld_read", name))     # switched away with the value just read in hand (check-then-act, read-modify-write)
            return v

        def fset(obj, value):
            # every write is a scheduling point (also under the lock): an UNPROTECTED reader elsewhere may look at the
            # field just before it - the lock does not keep such a reader out
            if slot in obj.__dict__ and S.me() is not None:
                S.yield_(("fld_write" if unprotected(obj) else "fld_write_locked", name))
            obj.__dict__[slot] = value
        return property(fget, fset)
    for n in names:
        setattr(cls, n, make(n))


POOL_COUNTERS = ("_ThreadPool__nb_threads", "_ThreadPool__nb_active_threads", "_ThreadPool__nb_pending_task")


def load_module_with_shims(modname, th, qm):
    """(Re-)imports `modname` with `threading` / `queue` pointing at the shims, for that module only."""
    saved = {k: sys.modules.get(k) for k in ("threading", "queue", modname)}
    sys.modules["threading"], sys.modules["queue"] = th, qm
    sys.modules.pop(modname, None)
    try:
        mod = importlib.import_module(modname)
    finally:
        for k, v in saved.items():
            if v is None:
                sys.modules.pop(k, None)
            else:
                sys.modules[k] = v
    return mod
