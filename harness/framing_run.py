"""C17 recorder.  Legs:
  server   : the real SimpleJSONRPCRequestHandler.do_POST with a scripted rfile (arbitrary read sizes) and a capturing wfile
  client   : the real Transport.parse_response fed by a scripted response object (identity and gzip)
  emit     : framing of what the library emits - client requests at the raw recording peer (TCP, Unix), replies of a real
             SimpleJSONRPCServer read by a raw client socket, CGI handler output
  target   : request target and scheme acceptance for URL combinations
run <cases.json|-> <out.json> <seed> <n>"""
import email.message
import gzip
import io
import json
import random
import socket
import sys
import threading

import logging

import jsonrpclib
import jsonrpclib.config
from jsonrpclib import jsonrpc

logging.disable(logging.CRITICAL)
from jsonrpclib.SimpleJSONRPCServer import (PooledJSONRPCServer, SimpleJSONRPCRequestHandler, SimpleJSONRPCServer, SimpleJSONRPCDispatcher,
                                            CGIJSONRPCRequestHandler)
from harness import netpeer

CHARS = {1: "aZ0 {\"", 2: "éñ¢\u0301\u0308", 3: "名€ก\u212b\u1e9b", 4: "𝄞😀𐍈"}        # (incl. combining marks / compatibility characters: text is not normalised)


def text_for(ws, rnd):
    t = "".join(rnd.choice(CHARS[w]) for w in ws)
    if ws and ws[0] == 3 and rnd.random() < 0.5:
        t = "\ufeff" + t[1:]            # U+FEFF is an ordinary character of a body (three bytes), also in first position
    return t


class ScriptedFile(object):
    """rfile / response stream returning the scripted chunks (never more than asked)."""
    def __init__(self, data, cuts):
        self.data, self.cuts, self.pos, self.reads = data, list(cuts), 0, []

    def read(self, n=-1):
        if self.pos >= len(self.data):
            return b""
        want = self.cuts.pop(0) if self.cuts else len(self.data) - self.pos
        if n is not None and n >= 0:
            want = min(want, n)
        want = max(1, want)
        out = self.data[self.pos:self.pos + want]
        self.pos += len(out)
        self.reads.append(len(out))
        return out


class FakeServer(object):
    def __init__(self, cfg):
        self.json_config = cfg
        self.logRequests = False
        self.handed = []

    def _marshaled_dispatch(self, data, dispatch_method=None, path=None):
        self.handed.append(data)
        return json.dumps({"jsonrpc": "2.0", "id": 1, "result": data[:20]})


def make_handler(body, cuts, cfg):
    h = SimpleJSONRPCRequestHandler.__new__(SimpleJSONRPCRequestHandler)
    h.rfile = ScriptedFile(body, cuts)
    h.wfile = io.BytesIO()
    h.headers = email.message.Message()
    h.headers["content-length"] = str(len(body))
    h.path = "/"
    h.server = FakeServer(cfg)
    h.request_version = "HTTP/1.1"
    h.requestline = "POST / HTTP/1.1"
    h.command = "POST"
    h.client_address = ("127.0.0.1", 0)
    h.close_connection = True
    h.log_message = lambda *a, **k: None
    return h


def parse_http(raw):
    head, _, body = raw.partition(b"\r\n\r\n")
    lines = head.split(b"\r\n")
    status = lines[0].decode("latin-1")
    hdrs = {}
    for l in lines[1:]:
        if b":" in l:
            n, v = l.split(b":", 1)
            hdrs.setdefault(n.decode("latin-1").lower(), []).append(v.strip().decode("latin-1"))
    return status, hdrs, body


def codes(s):
    return [ord(c) for c in s]


def leg_server(ws, cuts, rnd, big=None):
    cfg = jsonrpclib.config.Config(content_type=rnd.choice(["application/json-rpc", "application/json"]))
    text = big if big is not None else text_for(ws, rnd)
    body = text.encode("utf-8")
    h = make_handler(body, cuts, cfg)
    err = ""
    try:
        h.do_POST()
    except BaseException as e:  # noqa
        err = "%s: %s" % (type(e).__name__, str(e)[:80])
    status, hdrs, out = parse_http(h.wfile.getvalue())
    handed = h.server.handed[0] if h.server.handed else None
    small = big is None
    return {"leg": "server", "ws": list(ws), "cuts": h.rfile.reads, "status": status.split(" ")[1] if " " in status else status,
            "text": codes(text) if small else [], "handed": codes(handed) if (small and handed is not None) else [],
            "equal": handed == text, "err": err,
            "clen": hdrs.get("content-length", ["?"]), "ctype": hdrs.get("content-type", ["?"]), "outlen": str(len(out)),
            "cfgtype": cfg.content_type, "nbytes": len(body)}


class FakeResponse(object):
    def __init__(self, data, cuts, enc):
        self.stream = ScriptedFile(data, cuts)
        self.enc = enc
        self.status = 200

    def getheader(self, name, default=None):
        if name.lower() == "content-encoding":
            return self.enc
        return default

    def read(self, n=-1):
        return self.stream.read(n)

    def close(self):
        pass


def leg_client(ws, cuts, rnd, gz, big=None):
    cfg = jsonrpclib.config.Config()
    text = big if big is not None else text_for(ws, rnd)
    body = text.encode("utf-8")
    data = gzip.compress(body) if gz else body
    t = jsonrpc.Transport(cfg)
    err, got = "", None
    if rnd.random() < 0.3:
        # the same transport first received a response that broke after part of it had been parsed (> one read of 1024
        # bytes): nothing of it may show up in the next one
        class Broken(FakeResponse):
            def read(self, n=-1):
                d = self.stream.read(n)
                if not d:
                    raise OSError("connection reset in the middle of the body")
                return d
        junk = ('{"jsonrpc": "2.0", "id": 1, "result": "' + "x" * 3000).encode("utf-8")
        try:
            t.parse_response(Broken(gzip.compress(junk)[:-8] if gz else junk, [], "gzip" if gz else ""))
        except BaseException:  # noqa
            pass
    resp = FakeResponse(data, [] if gz else cuts, "gzip" if gz else "")
    try:
        got = t.parse_response(resp)
    except BaseException as e:  # noqa
        err = "%s: %s" % (type(e).__name__, str(e)[:80])
    small = big is None
    return {"leg": "client", "ws": list(ws), "cuts": resp.stream.reads[:50], "status": "200", "text": codes(text) if small else [],
            "handed": codes(got) if (small and isinstance(got, str)) else [], "equal": got == text, "err": err, "gzip": gz,
            "clen": ["-"], "ctype": ["-"], "outlen": "-", "cfgtype": "-", "nbytes": len(body)}


def leg_emit(rnd, rundir, n):
    """Framing of emitted messages."""
    recs = []
    # (1) client requests at the raw recording peer
    for kind in ("tcp", "unix"):
        peer = netpeer.RecordingPeer(unix_path=(rundir + "/emit%d.sock" % rnd.randint(0, 10 ** 9)) if kind == "unix" else None, probe_excess=True)
        for _ in range(n):
            cfg = jsonrpclib.config.Config(content_type=rnd.choice(["application/json-rpc", "application/json", "application/jsonrequest"]))
            ws = [rnd.randint(1, 4) for _ in range(rnd.randint(0, 12))]
            arg = text_for(ws, rnd)
            p = jsonrpc.ServerProxy(peer.url(), config=cfg, version=rnd.choice([1.0, 2.0]))
            if rnd.random() < 0.4:
                # the configuration object is changed once the proxy exists (it is shared and mutable): the content
                # type declared is the configured one at the time of the request
                cfg.content_type = rnd.choice(["application/json-rpc", "application/json", "application/jsonrequest", "text/x-verif"])
            n0 = len(peer.requests)
            try:
                style = rnd.choice(["call", "notify", "batch", "rawbody"])
                if style == "rawbody":
                    # the transport's own entry point, handed a body that was not escaped to ASCII
                    body = json.dumps({"jsonrpc": "2.0", "id": 1, "method": "echo", "params": [arg + "é€𝄞"]}, ensure_ascii=False)
                    try:
                        p("transport").request(p._ServerProxy__host, "/", body)
                    except jsonrpc.ProtocolError:
                        pass
                elif style == "call":
                    p.echo(arg)
                elif style == "notify":
                    p._notify.echo(arg)
                else:
                    mc = jsonrpc.MultiCall(p)
                    mc.echo(arg)
                    mc.echo(arg + "2")
                    mc()
                err = ""
            except BaseException as e:  # noqa
                err = "%s: %s" % (type(e).__name__, str(e)[:80])
            reqs = peer.requests[n0:]
            hd = {}
            for (nm, v) in (reqs[0]["headers"] if reqs else []):
                hd.setdefault(nm.lower(), []).append(v)
            recs.append({"leg": "emit", "who": "client-" + kind, "clen": hd.get("content-length", ["?"]), "ctype": hd.get("content-type", ["?"]),
                         "outlen": str(len(reqs[0]["body"]) + reqs[0].get("excess", 0)) if reqs else "?", "cfgtype": cfg.content_type, "err": err, "nreq": len(reqs)})
            try:
                p("close")()
            except BaseException:  # noqa
                pass
        peer.close()
    # (2) replies of a real HTTP server, read by a raw client socket
    cfg = jsonrpclib.config.Config(content_type=rnd.choice(["application/json", "application/jsonrequest", "text/x-verif"]))
    srv = rnd.choice([SimpleJSONRPCServer, PooledJSONRPCServer])(("127.0.0.1", 0), logRequests=False, config=cfg)
    srv.register_function(lambda x: x, "echo")
    th = threading.Thread(target=srv.serve_forever, kwargs={"poll_interval": 0.01}, daemon=True)
    th.start()
    for _ in range(n):
        ws = [rnd.randint(1, 4) for _ in range(rnd.randint(0, 12))]
        arg = text_for(ws, rnd)
        body = rnd.choice([json.dumps({"jsonrpc": "2.0", "id": 1, "method": "echo", "params": [arg]}, ensure_ascii=rnd.random() < 0.5),
                           json.dumps({"jsonrpc": "2.0", "method": "echo", "params": [arg]}), "{bad json", json.dumps([{"jsonrpc": "2.0", "id": 2, "method": "nope"}]),
                           ""]).encode("utf-8")
        s = socket.create_connection(srv.server_address)
        s.settimeout(5)
        s.sendall(b"POST / HTTP/1.0\r\nContent-Length: " + str(len(body)).encode() + b"\r\nContent-Type: application/json\r\n\r\n" + body)
        raw = b""
        try:
            while True:
                c = s.recv(65536)
                if not c:
                    break
                raw += c
        except OSError:
            pass
        s.close()
        status, hd, out = parse_http(raw)
        recs.append({"leg": "emit", "who": "http-server", "clen": hd.get("content-length", ["?"]), "ctype": hd.get("content-type", ["?"]),
                     "outlen": str(len(out)), "cfgtype": cfg.content_type, "err": "", "nreq": 1})
    srv.shutdown()
    srv.server_close()
    # (3) CGI handler output
    for _ in range(n):
        cfgc = jsonrpclib.config.Config(content_type=rnd.choice(["application/json-rpc", "application/json"]))
        cgi = CGIJSONRPCRequestHandler(config=cfgc)
        cgi.register_function(lambda x: x, "echo")
        # (one handler object answers one to three requests, each on its own standard output)
        for _use in range(rnd.randint(1, 3)):
            ws = [rnd.randint(1, 4) for _ in range(rnd.randint(0, 12))]
            arg = text_for(ws, rnd)
            req = json.dumps({"jsonrpc": "2.0", "id": 1, "method": "echo", "params": [arg]}, ensure_ascii=rnd.random() < 0.5)
            buf = io.BytesIO()
            old = sys.stdout
            wrapper = io.TextIOWrapper(buf, encoding="utf-8", newline="\n", write_through=True)
            sys.stdout = wrapper
            try:
                cgi.handle_jsonrpc(req)
                wrapper.flush()
                err = ""
            except BaseException as e:  # noqa
                err = "%s: %s" % (type(e).__name__, str(e)[:80])
            finally:
                sys.stdout = old
            raw = buf.getvalue().replace(b"\r\n", b"\n")
            wrapper.detach()
            head, _, out = raw.partition(b"\n\n")
            hd = {}
            for l in head.split(b"\n"):
                if b":" in l:
                    nm, v = l.split(b":", 1)
                    hd.setdefault(nm.decode().lower(), []).append(v.strip().decode())
            recs.append({"leg": "emit", "who": "cgi", "clen": hd.get("content-length", ["?"]), "ctype": hd.get("content-type", ["?"]),
                         "outlen": str(len(out)), "cfgtype": cfgc.content_type, "err": err, "nreq": 1})
    return recs


class CaptureTransport(object):
    def __init__(self):
        self.seen = []

    def push_headers(self, h):
        pass

    def pop_headers(self, h):
        pass

    def request(self, host, handler, body, verbose=0):
        self.seen.append((host, handler))
        return ""

    def close(self):
        pass


def leg_target(rnd, peer):
    recs = []
    paths = ["", "/", "/a/b", "/a%20b/c%2Fd", "/RPC2", "/x/", "//double", "/%C3%A9"]
    queries = ["", "q=1", "a=1&b=%26", "x", "k=v=w"]
    schemes = ["http", "https", "unix+http", "ftp", "", "ws", "unix+ftp", "file", "gopher", "unix+", "httpx",
               "git+http", "svn+https", "foo+http", "http+unix", "unix+unix+http", "unixhttp", "+http", "x-unix+http"]
    for scheme in schemes:
        for path in paths:
            for query in queries:
                host = "127.0.0.1:%d" % peer.addr[1]
                url = (scheme + "://" if scheme else "//") + host + path + ("?" + query if query else "")
                rec = {"leg": "target", "scheme": scheme, "path": path, "query": query, "built": False, "exc": "", "target": "", "wire": ""}
                try:
                    jsonrpc.ServerProxy(url)
                    rec["built"] = True
                    ct = CaptureTransport()
                    p = jsonrpc.ServerProxy(url, transport=ct)
                    for _rep in range(rnd.randint(1, 3)):           # the target of the n-th request is that of the first
                        p._notify.ping()
                    rec["target"] = ct.seen[-1][1] if ct.seen else "?"
                    # without a custom transport: which transport class is chosen, and (plain http) what a raw peer receives
                    if scheme == "http":
                        n0 = len(peer.requests)
                        p2 = jsonrpc.ServerProxy(url)
                        for _rep in range(rnd.randint(1, 3)):
                            p2._notify.ping()
                        reqs = peer.requests[n0:]
                        rec["wire"] = reqs[-1]["line"].split(" ")[1] if reqs else "?"
                        p2("close")()
                except BaseException as e:  # noqa
                    rec["exc"] = type(e).__name__
                recs.append(rec)
    return recs


def all_comps(n):
    if n == 0:
        return [[]]
    out = []
    for first in range(1, n + 1):
        for rest in all_comps(n - first):
            out.append([first] + rest)
    return out


def compositions(n, rnd, k):
    """k random compositions of n (lists of positive ints summing to n), plus the extreme ones."""
    out = [[n], [1] * n] if n > 0 else [[]]
    for _ in range(k):
        cuts, left = [], n
        while left > 0:
            c = rnd.randint(1, max(1, min(left, rnd.choice([1, 2, 3, 5, 8, left]))))
            cuts.append(c)
            left -= c
        out.append(cuts)
    return out


if __name__ == "__main__":
    import socket as _socket
    _socket.setdefaulttimeout(20)        # a peer (or a changed library) that never answers ends a call with an error, not a hang
    cases, out, seed, n, rundir = sys.argv[2], sys.argv[3], int(sys.argv[4]), int(sys.argv[5]), sys.argv[6]
    rnd = random.Random(seed)
    recs = []
    bodies = json.load(open(cases))
    for b in bodies:
        ws = b["ws"]
        nbytes = sum(ws)
        for cuts in (all_comps(nbytes) if nbytes <= 6 else compositions(nbytes, rnd, 6)):
            recs.append(leg_server(ws, list(cuts), rnd))
            recs.append(leg_client(ws, list(cuts), rnd, False))
        recs.append(leg_client(ws, [], rnd, True))
    # longer random bodies
    for _ in range(n):
        ws = [rnd.choice([1, 1, 2, 3, 4]) for _ in range(rnd.randint(5, 60))]
        for cuts in compositions(sum(ws), rnd, 2):
            recs.append(leg_server(ws, list(cuts), rnd))
            recs.append(leg_client(ws, list(cuts), rnd, False))
    # gzip: a decoded stream longer than the 1024-byte read size with multi-byte characters at the boundary
    for k in range(3):
        big = "x" * (1022 + k) + "𝄞é名" * 400
        recs.append(leg_client([], [], rnd, True, big=big))
        recs.append(leg_client([], [7] * 100, rnd, False, big=big))
    if seed % 4 == 0:
        # beyond the server's read-chunk size (10 MiB) with a multi-byte character across the boundary
        big = "a" * (10 * 1024 * 1024 - 1) + "é" + "tail"
        recs.append(leg_server([], [], rnd, big=big))
    recs += leg_emit(rnd, rundir, max(4, n // 4))
    peer = netpeer.RecordingPeer()
    recs += leg_target(rnd, peer)
    peer.close()
    json.dump(recs, open(out, "w"))
    print(len(recs))
