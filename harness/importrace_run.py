"""C07 (classes named by module path, concurrent first use): two threads load() the same module-qualified bean while the
module of its class is still being imported by the first of them (its body waits on a gate).  Both must get the bean.
  run <out.json> <seed> <n> <rundir>"""
import builtins
import json
import os
import random
import sys
import threading
import time

from jsonrpclib import jsonclass

MOD_SRC = '''import builtins
builtins._verif_in_body.set()
builtins._verif_gate.wait(4)
class Bean(object):
    def __init__(self):
        self.a = None
        self.b = None
    def __eq__(self, other):
        return type(other).__name__ == "Bean" and (self.a, self.b) == (other.a, other.b)
'''


def one(k, rnd, rundir):
    name = "verif_slowmod_%d" % k
    with open(os.path.join(rundir, name + ".py"), "w") as f:
        f.write(MOD_SRC)
    builtins._verif_gate, builtins._verif_in_body = threading.Event(), threading.Event()
    builtins._verif_gate.set()
    mod = __import__(name)
    bean = mod.Bean()
    bean.a, bean.b = rnd.choice([1, "x", [1, 2]]), rnd.choice([None, {"k": 1}, 2.5])
    dumped = jsonclass.dump(bean)
    want = (bean.a, bean.b)
    # forget the module: the next load() has to import it again, and this time its body waits on the gate
    del sys.modules[name]
    builtins._verif_gate.clear()
    builtins._verif_in_body.clear()
    res = {}

    def loader(tag):
        try:
            o = jsonclass.load(json.loads(json.dumps(dumped)))
            res[tag] = "ok" if (type(o).__name__ == "Bean" and (o.a, o.b) == want) else "wrong:%s" % type(o).__name__
        except BaseException as e:  # noqa
            res[tag] = "raised:" + type(e).__name__
    t1 = threading.Thread(target=loader, args=("t1",), daemon=True)
    t1.start()
    entered = builtins._verif_in_body.wait(4)
    t2 = threading.Thread(target=loader, args=("t2",), daemon=True)
    t2.start()
    time.sleep(0.15)                 # t2 is now waiting for the import that t1 has in progress
    builtins._verif_gate.set()
    t1.join(40)
    t2.join(40)
    sys.modules.pop(name, None)
    return {"entered": bool(entered), "t1": res.get("t1", "no-outcome"), "t2": res.get("t2", "no-outcome")}


if __name__ == "__main__":
    out, seed, n, rundir = sys.argv[2], int(sys.argv[3]), int(sys.argv[4]), sys.argv[5]
    os.makedirs(rundir, exist_ok=True)
    sys.path.insert(0, rundir)
    sys.dont_write_bytecode = True
    rnd = random.Random(seed)
    json.dump([one(seed * 1000 + k, rnd, rundir) for k in range(n)], open(out, "w"))
    print(n)
