"""C14 concretiser: abstract argument classes (from MC_Envelope) -> concrete calls of the real dump/dumps/loads."""
import json
import random
import sys

import jsonrpclib
from jsonrpclib import jsonrpc
import jsonrpclib.config
import copy

from harness.values import enc
from harness.perturb import scribble

WORDS = ["ping", "add", "x", "sum.of", "a.b.c", "méthode", "方法", "do it", "_p", "get_Value2"]


def val(rnd, depth=0):
    r = rnd.random()
    if depth > 1 or r < 0.5:
        return rnd.choice([None, True, False, 0, 1, -7, 2 ** 40, 0.5, -0.0, "", "s", "é"])
    if r < 0.75:
        return [val(rnd, depth + 1) for _ in range(rnd.randint(0, 3))]
    return {rnd.choice(["a", "b", "k"]): val(rnd, depth + 1) for _ in range(rnd.randint(0, 2))}


def concretise(a, rnd):
    m = {"str": rnd.choice(WORDS), "empty": "", "int": rnd.choice([5, 0]), "none": None}[a["m"]]
    n = rnd.randint(1, 3)
    p = {"list": [val(rnd) for _ in range(n)], "tuple": tuple(val(rnd) for _ in range(n)),
         "dict": {"k%d" % j: val(rnd) for j in range(n)}, "elist": [], "etuple": (), "edict": {}, "none": None,
         "int": rnd.choice([7, 0]), "str": rnd.choice(["abc", ""])}.get(a["p"])
    fault = None
    if a["p"] in ("fault", "faultnd"):
        code = rnd.choice([-32000, -32603, 1, 0, 404])
        msg = rnd.choice(["Server error", "", "boom é"])
        data = rnd.choice([{"why": [1, 2]}, "details", 0, False, [], ""]) if a["p"] == "fault" else None
        fault = jsonrpc.Fault(code, msg, data=data)
        fault.verif_inputs = (code, msg, data)        # what the caller built it with (not what the object remembers)
        p = fault
    rid = {"none": None, "empty": "", "str": rnd.choice(["abc", "0", "id-é", " "]), "zero": 0, "zerof": 0.0,
           "int": rnd.choice([5, 2 ** 53]), "neg": rnd.choice([-1, -99]), "frac": rnd.choice([1.5, -0.25])}[a["id"]]
    v = {"none": None, "1f": 1.0, "2f": 2.0, "1s": "1.0", "2s": "2.0"}[a["v"]]
    cfg = jsonrpclib.config.Config(version=1.0 if a["cv"] == "1" else 2.0)
    if a["p"] in ("list", "dict", "elist", "edict", "none", "int", "str") and rnd.random() < 0.3:
        # "default and custom Config": values that are JSON-normal already (no tuple) need no class translation
        cfg.use_jsonclass = False
    return m, p, rid, v, cfg, fault


def call(fn):
    try:
        return {"kind": "ok", "msg": fn()}
    except BaseException as e:  # noqa
        return {"kind": type(e).__name__, "msg": None}


def run_case(a, judged, rnd):
    m, p, rid, v, cfg, fault = concretise(a, rnd)
    resp = True if a["resp"] else None
    notify = True if a["notify"] else None
    prior = rnd.random() < 0.5
    if prior:
        # an earlier, equal call whose results were then modified in place by their owner (harness/perturb.py): the
        # judged call below is a function of its own arguments only
        def before():
            pp = copy.deepcopy(p)
            scribble(jsonrpc.dump(pp, m, rid, v, resp, notify, cfg))
            t = jsonrpc.dumps(pp, m, methodresponse=resp, rpcid=rid, version=v, notify=notify, config=cfg)
            scribble(jsonrpc.loads(t, cfg))
            scribble(jsonrpc.loads(t, cfg))
        call(before)
    d = call(lambda: jsonrpc.dump(p, m, rid, v, resp, notify, cfg))
    texts = []

    def ds():
        t = jsonrpc.dumps(p, m, methodresponse=resp, rpcid=rid, version=v, notify=notify, config=cfg)
        texts.append(t)
        return json.loads(t)
    s = call(ds)
    rt = call(lambda: jsonrpc.loads(texts[0], cfg)) if texts else {"kind": "none", "msg": None}
    # a dictionary with keys of several types somewhere in the parameters / result / fault data: the message is still
    # emitted (the JSON text has string keys, so only "does not raise" is asked here)
    mixed = "na"
    if s["kind"] == "ok":
        mk = {"name": "x", 2: "two", None: 0}
        if fault is not None:
            p2 = jsonrpc.Fault(fault.verif_inputs[0], fault.verif_inputs[1], data={"why": mk})
        elif isinstance(p, dict):
            p2 = dict(p, nested=mk)
        elif isinstance(p, (list, tuple)) and len(p) > 0:
            p2 = list(p) + [mk]
        else:
            p2 = None
        if p2 is not None:
            mx = call(lambda: json.loads(jsonrpc.dumps(p2, m, methodresponse=resp, rpcid=rid, version=v, notify=notify, config=cfg)))
            mixed = "ok" if mx["kind"] == "ok" else "raised:" + mx["kind"]
    fresh = []
    if d["kind"] == "ok" and isinstance(d["msg"], dict):
        for _ in range(3):
            x = call(lambda: jsonrpc.dump(p, m, rid, v, resp, notify, cfg))
            if x["kind"] == "ok" and isinstance(x["msg"], dict) and isinstance(x["msg"].get("id"), str):
                fresh.append(x["msg"]["id"])
        if isinstance(d["msg"].get("id"), str):
            fresh.append(d["msg"]["id"])
    try:
        le = jsonrpc.loads("", cfg)
        le = "none" if le is None else "other"
    except BaseException as e:  # noqa
        le = "raised:" + type(e).__name__
    rec = {"a": a, "judged": judged,
           "in": {"method": enc(m), "params": enc(None if fault else p), "rpcid": enc(rid),
                  "fcode": enc(fault.verif_inputs[0] if fault else None), "fmsg": enc(fault.verif_inputs[1] if fault else None),
                  "fdata": enc(fault.verif_inputs[2] if fault else None)},
           "dump": {"kind": d["kind"], "msg": enc(d["msg"])}, "dumps": {"kind": s["kind"], "msg": enc(s["msg"])},
           "mixed": mixed,
           "rt": {"kind": rt["kind"], "msg": enc(rt["msg"])},
           "fresh": fresh if a["id"] in ("none", "empty") else [], "loadsempty": le,
           "repr": "dump(%r, %r, rpcid=%r, version=%r, is_response=%r, is_notify=%r, config.version=%r, use_jsonclass=%r)%s" % (
               "Fault" if fault else p, m, rid, v, resp, notify, cfg.version, cfg.use_jsonclass,
               " after an equal call whose results were modified in place" if prior else "")}
    return rec


def run_case_interleaved(a, a2, rnd, limit):
    """The dump() of case `a` with one complete dump() of case `a2` (another caller, another thread) placed at a line of
    the library inside it; one record per placement, judged like any other call of case `a`."""
    from harness import interleave
    m, p, rid, v, cfg, fault = concretise(a, rnd)
    m2, p2, rid2, v2, cfg2, fault2 = concretise(a2, rnd)
    resp, notify = (True if a["resp"] else None), (True if a["notify"] else None)
    resp2, notify2 = (True if a2["resp"] else None), (True if a2["notify"] else None)
    fa = lambda: jsonrpc.dump(p, m, rid, v, resp, notify, cfg)
    fb = lambda: jsonrpc.dump(p2, m2, rid2, v2, resp2, notify2, cfg2)
    recs = []
    for k in interleave.sample_points(interleave.points(fa), limit, rnd):
        ra, rb, fired = interleave.run(fa, fb, k)
        d = {"kind": "ok", "msg": ra[1]} if ra[0] == "ok" else {"kind": ra[1].split(":")[0], "msg": None}
        fresh = []
        if ra[0] == "ok" and isinstance(ra[1], dict) and isinstance(ra[1].get("id"), str):
            fresh.append(ra[1]["id"])
        # the other caller's id takes part in the uniqueness test only when the library generated it as well
        b_generated = a2["id"] in ("none", "empty") and a2["m"] == "str" and not a2["resp"] and not a2["notify"]
        if b_generated and rb[0] == "ok" and isinstance(rb[1], dict) and isinstance(rb[1].get("id"), str) and rb[1]["id"] != "":
            fresh.append(rb[1]["id"])
        both_fresh = a["id"] in ("none", "empty") and b_generated
        recs.append({"a": a, "judged": True,
                     "in": {"method": enc(m), "params": enc(None if fault else p), "rpcid": enc(rid),
                            "fcode": enc(fault.verif_inputs[0] if fault else None), "fmsg": enc(fault.verif_inputs[1] if fault else None),
                            "fdata": enc(fault.verif_inputs[2] if fault else None)},
                     "dump": {"kind": d["kind"], "msg": enc(d["msg"])}, "dumps": {"kind": d["kind"], "msg": enc(d["msg"])},
                     "rt": {"kind": "none", "msg": enc(None)},
                     "fresh": fresh if both_fresh else (fresh[:1] if a["id"] in ("none", "empty") else []), "loadsempty": "none", "mixed": "na",
                     "repr": "dump(%r, %r, rpcid=%r, version=%r, is_response=%r, is_notify=%r, config.version=%r) with a concurrent dump(rpcid=%r, version=%r) at line event %d" % (
                         "Fault" if fault else p, m, rid, v, resp, notify, cfg.version, rid2, v2, k)})
    return recs


if __name__ == "__main__":
    if sys.argv[1] == "interleave":
        cases = json.load(open(sys.argv[2]))
        out, seed, npairs, limit = sys.argv[3], int(sys.argv[4]), int(sys.argv[5]), int(sys.argv[6])
        rnd = random.Random(seed)
        judged = [c["c"] for c in cases if c["judged"]]
        recs = []
        noid = [c for c in judged if c["id"] in ("none", "empty") and c["m"] == "str" and not c["resp"]]
        for j in range(npairs):
            if j % 3 == 0 and noid:
                a, a2 = rnd.choice(noid), rnd.choice(noid)       # both callers leave the id to the library: it must differ
            else:
                a = rnd.choice(judged)
                same = [c for c in judged if c["v"] == a["v"] and c["cv"] == a["cv"]]
                a2 = rnd.choice(same if rnd.random() < 0.7 else judged)
            recs += run_case_interleaved(a, a2, rnd, 400 if (j % 3 == 0 and noid and j < 30) else limit)
        json.dump(recs, open(out, "w"))
        print(len(recs))
        sys.exit(0)
    cases = json.load(open(sys.argv[1]))
    out, seed, k = sys.argv[2], int(sys.argv[3]), int(sys.argv[4])
    rnd = random.Random(seed)
    recs = []
    for c in cases:
        for _ in range(k if c["judged"] else 1):
            recs.append(run_case(c["c"], c["judged"], rnd))
    json.dump(recs, open(out, "w"))
    print(len(recs))
