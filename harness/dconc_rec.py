"""C13 (concurrent part) and C04 (pooled notifications): runs one real SimpleJSONRPCDispatcher with several request threads
(and, optionally, the real ThreadPool as notification pool) under the controlled scheduler.  Yield points are the accesses
to Config.version (reads and writes, on every Config object), writes of any other Config field, the pool's shim operations
and the registered callables.  Schedules are explored systematically with a preemption bound, plus random ones.

  explore <out.json> <seed> <bound> <maxruns> <tier>
"""
import itertools
import json
import os
import logging
import random
import sys
import time

from harness import detsched

logging.disable(logging.CRITICAL)
FIELDS = ("version", "use_jsonclass", "content_type", "user_agent", "classes", "serialize_method", "ignore_attribute",
          "serialize_handlers")


class Hooks(object):
    pass


class Run(object):
    MINW = 0             # min_threads of the notification pool (set around the explorations that want resident workers)

    def __init__(self, sv, kinds, nworkers, dks=None, late=False):
        """kinds: list of request kinds [{jr, notif, valid}] one per handler (1-based ids); dks: per handler "default" or
        "custom" (the dispatch function handed to _marshaled_dispatch)."""
        self.sv, self.kinds, self.nworkers = sv, kinds, nworkers
        self.dks = list(dks) if dks else ["default"] * len(kinds)
        S = self.S = detsched.Sched()
        H = self.H = Hooks()
        H.srcfile = None
        self.walive = set()
        H.ev, H.alloc, H.dead = self.ev, self.alloc, self.dead
        H.on_put = H.on_get = H.on_drop = lambda item: None
        th, qm = detsched.make_shims(S, H)
        self.tp = detsched.load_module_with_shims("jsonrpclib.threadpool", th, qm)
        detsched.trace_fields(S, self.tp.ThreadPool, detsched.POOL_COUNTERS, "_ThreadPool__lock")
        H.srcfile = self.tp.__file__
        import jsonrpclib.config as C
        import jsonrpclib.SimpleJSONRPCServer as SRV
        self.C = C
        run = self
        self.objid = {}
        self.keep = []
        if not hasattr(C, "_verif_plain_config"):
            C._verif_plain_config = C.Config
        Plain = C._verif_plain_config

        class TConfig(Plain):
            def __getattribute__(self, name):
                if name != "version" or run.S.me() is None:
                    return object.__getattribute__(self, name)
                run.S.yield_(("rd_version",))
                v = object.__getattribute__(self, name)
                run.S.emit("rd_version", obj=run.oid(self), val=run.vtok(v))
                return v

            def __setattr__(self, name, value):
                if run.S.me() is None:
                    return object.__setattr__(self, name, value)
                if name == "version":
                    run.S.yield_(("wr_version",))
                    object.__setattr__(self, name, value)
                    run.S.emit("wr_version", obj=run.oid(self), val=run.vtok(value))
                else:
                    fresh = id(self) not in run.objid or run.objid[id(self)] >= 1000
                    if not fresh:
                        run.S.yield_(("wr_other",))
                    object.__setattr__(self, name, value)
                    if not fresh:
                        run.S.emit("wr_other", obj=run.oid(self), val=name)
        TConfig.__name__ = "Config"
        self.TConfig = TConfig
        C.Config = TConfig
        self.default = C.DEFAULT
        self.default_cls = C.DEFAULT.__class__
        C.DEFAULT.__class__ = TConfig
        self.cfg = TConfig(version=1.0 if sv == "1" else 2.0)
        self.objid[id(self.cfg)] = 1
        self.objid[id(C.DEFAULT)] = 2
        self.d = SRV.SimpleJSONRPCDispatcher(config=self.cfg)
        self.execs = {}
        for h in range(1, len(kinds) + 1):
            self.d.register_function(self.make_fn(h), "ok_%d" % h)
        self.pool = None
        if nworkers:
            self.pool = self.tp.ThreadPool(nworkers, min(Run.MINW, nworkers), logname="N")
            if not late:
                self.pool.start()
            self.d.set_notification_pool(self.pool)
        self.replies = {}
        self.init_snap = self.cfgsnap()
        S.snap = self.snap

    def restore(self):
        self.C.Config = self.C._verif_plain_config
        self.C.DEFAULT.__class__ = self.default_cls

    def make_fn(self, h):
        run = self

        def fn(*a, **k):
            run.S.yield_(("exec", h))
            run.execs[h] = run.execs.get(h, 0) + 1
            run.S.emit("exec", h=h)
            return "done-%d" % h
        return fn

    def custom(self, method, params):
        """A custom dispatch function (method, params), as SimpleJSONRPCDispatcher documents it."""
        h = int(method.rsplit("_", 1)[1])
        return self.make_fn(h)(*params)

    def oid(self, obj):
        i = self.objid.get(id(obj))
        if i is None:
            me = self.S.me()
            i = 1000 + (me.idx if me is not None and me.idx < 100 else 99)
            self.objid[id(obj)] = i
            self.keep.append(obj)          # keep it alive: id() must not be re-used within a run
        return i

    def vtok(self, v):
        return "1" if v == 1.0 else "2" if v == 2.0 else "other"

    def cfgsnap(self):
        def one(c):
            parts = []
            for f in FIELDS:
                try:
                    v = object.__getattribute__(c, f)
                except AttributeError:
                    v = "<missing>"
                if isinstance(v, dict):
                    v = sorted((str(k), str(x)) for k, x in v.items())
                parts.append("%s=%r" % (f, v))
            return ";".join(parts)
        return {"server": one(self.cfg), "deflt": one(self.default)}

    def snap(self):
        s = self.cfgsnap()
        s["execs"] = [self.execs.get(h, 0) for h in range(1, len(self.kinds) + 1)]
        s["replies"] = [self.replies.get(h, "none") for h in range(1, len(self.kinds) + 1)]
        return s

    # pool shim hooks
    def alloc(self, shim):
        i = min(x for x in range(101, 120) if x not in self.walive)
        self.walive.add(i)
        return i

    def dead(self, i):
        self.walive.discard(i)

    def ev(self, kind, obj, fn):
        me = self.S.me()
        if me is None or me.idx == 90:
            return                       # (90: the thread that starts a late pool - not a process of the model)
        if kind == "qput" and fn == "enqueue" and me.idx < 100:
            self.S.emit("enqueue", h=me.idx)
        else:
            self.S.emit("pool", sub=kind)

    def body(self, h):
        k = self.kinds[h - 1]
        d = {}
        if k["jr"]:
            d["jsonrpc"] = "2.0"
        if not k["notif"]:
            d["id"] = {"__jsonclass__": ["decimal.Decimal", [str(h)]]} if k.get("bean") else h
        elif not k["jr"]:
            d["id"] = None               # a 1.0 notification needs the id member (null) to be a request at all
        d["method"] = "ok_%d" % h if k["valid"] else 5
        d["params"] = [h]
        if not k["valid"] and not k["jr"] and k["notif"]:
            d["id"] = None
        return json.dumps(d)

    def handler(self, h):
        S = self.S
        S.yield_(("call", h))
        S.emit("call", h=h)
        idok = 0                        # 1: the reply carries this request's own id, -1: another one, 0: not applicable
        try:
            out = self.d._marshaled_dispatch(self.body(h), self.custom if self.dks[h - 1] == "custom" else None)
            if out == "":
                form = "none"
            else:
                r = json.loads(out)
                form = "2" if isinstance(r, dict) and "jsonrpc" in r else "1" if isinstance(r, dict) else "bad"
                k = self.kinds[h - 1]
                if isinstance(r, dict) and k["valid"] and not k["notif"] and not k.get("bean"):
                    idok = 1 if (type(r.get("id")) is int and r.get("id") == h) else -1
        except BaseException as e:  # noqa
            form = "raised"
        S.yield_(("ret", h))
        self.replies[h] = form
        S.emit("ret", h=h, val=form, obj=idok)

    def start(self):
        for h in range(1, len(self.kinds) + 1):
            self.S.spawn((lambda hh: (lambda: self.handler(hh)))(h), "handler%d" % h, h)

    def result(self, end, **kw):
        ev = []
        for e in self.S.events:
            ev.append({"thr": e["thr"], "k": e["k"], "obj": e.get("obj", 0), "val": e.get("val", ""), "h": e.get("h", 0), "st": e["st"]})
        r = {"cfg": {"sv": self.sv, "kinds": self.kinds, "nworkers": self.nworkers, "nh": len(self.kinds), "dks": self.dks}, "init": self.init_snap,
             "end": end, "ev": ev}
        r.update(kw)
        self.S.kill_all()
        self.restore()
        return r


STUCK = [0]


class StuckAbort(Exception):
    pass


def run_plan(sv, kinds, nworkers, plan, rnd=None, policy="low", dks=None):
    """plan: dict step index -> thread idx to switch to (a preemption); a negative idx fires the idle time-out of that
    (blocked) thread.  Default policy: keep running the current thread while it is enabled, else the enabled thread with
    the lowest ("low") or highest ("high": pool workers first) id.  rnd: random schedule instead."""
    if STUCK[0]:
        raise StuckAbort()
    R = Run(sv, kinds, nworkers, dks)
    R.start()
    S = R.S
    cur = None
    step = 0
    choices = []         # (step, current idx, [other options])
    end = "done"
    while True:
        live = S.live()
        en = [t for t in live if S.is_enabled(t)]
        tm = [t for t in live if not S.is_enabled(t) and t.can_timeout]
        handlers_live = [t for t in live if t.idx < 100]
        if not en:
            end = "done" if not handlers_live else "deadlock"
            break
        tmo = False
        if rnd is not None:
            if tm and rnd.random() < 0.08:
                t, tmo = rnd.choice(tm), True
            else:
                t = cur if (cur in en and rnd.random() < 0.7) else rnd.choice(en)
        else:
            want = plan.get(step)
            t = None
            if want is not None and want < 0:
                t = next((x for x in tm if x.idx == -want), None)
                tmo = t is not None
            elif want is not None:
                t = next((x for x in en if x.idx == want), None)
            if t is None:
                t = cur if cur in en else sorted(en, key=lambda x: x.idx if policy == "low" else -x.idx)[0]
        if not tmo and t.op[0] in ("rd_version", "wr_version", "wr_other", "exec", "call", "ret", "qput", "qget"):
            choices.append((step, t.idx, [x.idx for x in en if x is not t] + [-x.idx for x in tm]))
        if not tmo:
            cur = t
        S.step(t, tmo)
        step += 1
        if S.stuck:
            # a handler thread is blocked in something the scheduler does not control (a real lock taken inside the
            # library): it cannot be stopped - this execution ends here as a deadlock, and so does the exploration
            STUCK[0] += 1
            end = "deadlock"
            break
        if step > 3000:
            end = "truncated"
            break
    return R.result(end, plan=sorted(plan.items()) if plan else [], policy=policy), choices


def run_late(sv, nback, maxw, dk, nlate, rnd):
    """A notification pool that is started late: `nback` notifications are handed to the pool before start(), the
    backlog is executed, the workers retire on their idle time-outs (min_threads = 0), then `nlate` more notifications
    arrive.  Deterministic phases (no preemption): what matters is the history, not the interleaving."""
    n = nback + nlate
    kinds = [{"jr": rnd.random() < 0.6, "notif": True, "valid": True} for _ in range(n)]
    R = Run(sv, kinds, maxw, dks=[dk] * n, late=True)
    S = R.S

    def run_all(idxs=None, limit=4000):
        k = 0
        while k < limit:
            en = [t for t in S.live() if S.is_enabled(t) and (idxs is None or t.idx in idxs)]
            if not en:
                return
            S.step(sorted(en, key=lambda t: t.idx)[0])
            k += 1
    for h in range(1, nback + 1):
        S.spawn((lambda hh: (lambda: R.handler(hh)))(h), "handler%d" % h, h)
    run_all()                                            # every backlog notification is answered (nothing runs yet)
    S.spawn(lambda: R.pool.start(), "starter", 90)
    run_all()                                            # start(), then the workers execute the backlog
    for _ in range(12):                                  # time passes: idle workers time out and retire
        tm = [t for t in S.live() if not S.is_enabled(t) and t.can_timeout and t.idx > 100]
        if not tm:
            break
        for t in tm:
            S.step(t, True)
        run_all()
    for h in range(nback + 1, n + 1):
        S.spawn((lambda hh: (lambda: R.handler(hh)))(h), "handler%d" % h, h)
    run_all()
    end = "done" if not [t for t in S.live() if t.idx < 100] else "deadlock"
    return R.result(end, plan=[["late", nback, nlate]], policy="late")


def explore(sv, kinds, nworkers, bound, maxruns, rnd, policy="low", dks=None):
    """All schedules with at most `bound` preemptions (breadth first, capped at maxruns), then random ones."""
    out, seen = [], set()
    frontier = [{}]
    for depth in range(bound + 1):
        nxt = []
        for plan in frontier:
            if len(out) >= maxruns or STUCK[0]:
                break
            tr, choices = run_plan(sv, kinds, nworkers, plan, policy=policy, dks=dks)
            key = "|".join("%s:%s:%s" % (e["thr"], e["k"], e["obj"]) for e in tr["ev"] if e["k"] != "pool")
            if key in seen:
                continue
            seen.add(key)
            out.append(tr)
            last = max(plan) if plan else -1
            for (st, curidx, others) in choices:
                if st <= last:
                    continue
                for o in others:
                    p2 = dict(plan)
                    p2[st] = o
                    nxt.append(p2)
        frontier = nxt
        if depth == bound - 1 and len(frontier) > maxruns:
            rnd.shuffle(frontier)
    return out


def all_kinds():
    return [{"jr": j, "notif": n, "valid": v} for j in (False, True) for n in (False, True) for v in (True, False)]


if __name__ == "__main__":
    out, seed, bound, maxruns, tier = sys.argv[2], int(sys.argv[3]), int(sys.argv[4]), int(sys.argv[5]), sys.argv[6]
    rnd = random.Random(seed)
    t0 = time.time()
    traces = []
    K = all_kinds()
    combos = []
    for sv in ("2", "1"):
        for nw in (0, 2):
            for a, b in itertools.product(K, K):
                combos.append((sv, [a, b], nw))
    rnd.shuffle(combos)
    # always cover the pairs in which a request is adapted (no "jsonrpc" member on a 2.0 server)
    combos.sort(key=lambda c: 0 if (c[0] == "2" and any(not k["jr"] and k["valid"] for k in c[1])) else 1)
    budget = 40 if tier == "quick" else len(combos)
    part = int(sys.argv[7]) if len(sys.argv) > 7 else 0
    nparts = int(sys.argv[8]) if len(sys.argv) > 8 else 1
    # always: pairs of notifications (and notification + call) handed to a pool of one / two workers, both baselines
    N = [k for k in K if k["valid"] and k["notif"]]
    Cc = [k for k in K if k["valid"] and not k["notif"]]
    late_traces = []
    try:
        always = [("2", [a, b], nw) for a in N for b in N + Cc[:1] for nw in (1, 2)]
        # resident workers (min_threads = 1): an idle time-out does not retire them - nothing may run a second time
        Run.MINW = 1
        for (sv, kinds, nw) in [("2", [N[0], N[1 % len(N)]], 1), ("2", [N[-1], Cc[0]], 1)][part % 2::2][:1]:
            traces += explore(sv, kinds, nw, bound, maxruns, rnd, policy="low")
            traces += explore(sv, kinds, nw, bound, maxruns, rnd, policy="high", dks=["custom", "custom"])
        Run.MINW = 0
        for (sv, kinds, nw) in always[part::nparts]:
            traces += explore(sv, kinds, nw, bound, maxruns, rnd, policy="high", dks=["custom", "custom"])
            traces += explore(sv, kinds, nw, bound, maxruns, rnd, policy="low")
        for (sv, kinds, nw) in combos[:budget][part::nparts]:
            traces += explore(sv, kinds, nw, bound, maxruns, rnd, dks=[rnd.choice(["default", "custom"]) for _ in kinds])
            if nw:
                traces += explore(sv, kinds, 1 if rnd.random() < 0.5 else nw, bound, maxruns, rnd, policy="high")
            for _ in range(3):
                tr, _c = run_plan(sv, kinds, nw, {}, rnd=rnd)
                traces.append(tr)
        # notification pools started late (with a backlog larger / smaller than the pool), then further notifications
        late = [(nb, mw, dk) for nb in (1, 3, 5) for mw in (1, 2) for dk in ("default", "custom")]
        late_traces = [run_late("2", nb, mw, dk, 2, rnd) for (nb, mw, dk) in late[part::nparts]]
        # requests whose id is a bean: the reply cannot be converted to JSON and the fall-back error is sent - in the form of
        # ITS request, whatever another thread is serving meanwhile (conformance instance has no such path: DConcObs only)
        bean = {"jr": True, "notif": False, "valid": True, "bean": True}
        bean1 = {"jr": False, "notif": False, "valid": True, "bean": True}
        others = [{"jr": False, "notif": False, "valid": True}, {"jr": True, "notif": False, "valid": True}, {"jr": False, "notif": True, "valid": True}]
        pairs = [("2", [b, o]) for b in (bean, bean1) for o in others] + [("2", [o, b]) for b in (bean, bean1) for o in others] + [("1", [bean, others[0]])]
        for (sv, kinds) in pairs[part::nparts]:
            late_traces += explore(sv, kinds, 0, bound, maxruns, rnd)
            late_traces += explore(sv, kinds, 0, bound, maxruns, rnd, policy="high")

        # three handlers, random schedules
        for _ in range(20 if tier == "quick" else 300):
            kinds = [rnd.choice(K) for _ in range(3)]
            tr, _c = run_plan(rnd.choice("12"), kinds, rnd.choice([0, 1, 2]), {}, rnd=rnd, dks=[rnd.choice(["default", "custom"]) for _ in kinds])
            traces.append(tr)
    except StuckAbort:
        pass
    json.dump(late_traces, open(out + ".late", "w"))
    json.dump(traces, open(out, "w"))
    print(json.dumps({"traces": len(traces), "events": sum(len(t["ev"]) for t in traces), "wall": round(time.time() - t0, 1)}))
    if STUCK[0]:
        sys.stdout.flush()
        os._exit(0)                      # a blocked thread cannot be joined
