"""C12 recorder (transport / life-cycle tier): real SimpleJSONRPCServer / PooledJSONRPCServer on real TCP and Unix
listeners, concurrent clients with unique tokens, life-cycle words with every call under a watchdog.
  run <words.json> <out.json> <seed> <rundir>
A word is a list over S (serve_forever in a thread), R (clients send a mix of requests, concurrently), D (shutdown()),
C (server_close()).  Recorded per word: for every life-cycle call whether it returned within the bound; for every client
request the reply against its own token; execution counts per token; socket state and liveness of the pool's worker
threads at the end."""
import json
import logging
import os
import random
import socket
import sys
import threading
import time

import jsonrpclib
import jsonrpclib.config
import jsonrpclib.threadpool
from jsonrpclib import jsonrpc
from jsonrpclib.SimpleJSONRPCServer import SimpleJSONRPCServer, PooledJSONRPCServer

logging.disable(logging.CRITICAL)
BOUND = float(os.environ.get("VERIF_SRV_BOUND", "4.0"))       # the confirmation pass of checks/c12_server.py uses a much longer one


def watchdog(fn):
    """Runs fn in a daemon thread; returns (returned?, seconds, exception name)."""
    res = {}

    def run():
        try:
            fn()
            res["ok"] = True
        except BaseException as e:  # noqa
            res["exc"] = type(e).__name__
    t = threading.Thread(target=run, daemon=True)
    t0 = time.time()
    t.start()
    t.join(BOUND)
    return (not t.is_alive()), round(time.time() - t0, 3), res.get("exc", "")


class Client(threading.Thread):
    def __init__(self, url, token, kind, ver):
        threading.Thread.__init__(self, daemon=True)
        self.url, self.token, self.kind, self.ver = url, token, kind, ver
        self.out = {"token": token, "kind": kind, "result": "", "status": ""}

    def run(self):
        try:
            if self.kind == "invalid":
                # a malformed body over a raw connection, then a proper call on a fresh proxy: the server must go on
                p = jsonrpc.ServerProxy(self.url, version=self.ver)
                try:
                    p("transport").request(p._ServerProxy__host, "/", "{not json " + self.token)
                except BaseException:  # noqa
                    pass
                v = p.echo(self.token)
                self.out.update(status="ok", result=v if isinstance(v, str) else json.dumps(v))
                return
            if self.kind == "truncated":
                # fewer body bytes than announced, then half-close: the server must answer (a parse error) and go on
                if self.url.startswith("unix+http://"):
                    sk = socket.socket(socket.AF_UNIX, socket.SOCK_STREAM)
                    sk.settimeout(BOUND * 0.6)
                    sk.connect(self.url[len("unix+http://"):])
                else:
                    hostport = self.url[len("http://"):].rstrip("/")
                    sk = socket.create_connection((hostport.split(":")[0], int(hostport.split(":")[1])), timeout=BOUND * 0.6)
                    sk.settimeout(BOUND * 0.6)
                if sum(map(ord, self.token)) % 2:
                    body = json.dumps({"jsonrpc": "2.0", "id": 1, "method": "echo", "params": [self.token]}).encode()
                    sk.sendall(b"POST / HTTP/1.0\r\nContent-Type: application/json\r\nContent-Length: " + str(len(body) + 25).encode() + b"\r\n\r\n" + body[:-5])
                else:
                    # the announced length counts characters instead of bytes: what the server reads ends inside a
                    # multi-byte character (and is all it is going to get)
                    body = json.dumps({"jsonrpc": "2.0", "id": 1, "method": "echo", "params": [self.token + "\u00e9"]}, ensure_ascii=False).encode("utf-8")
                    sk.sendall(b"POST / HTTP/1.0\r\nContent-Type: application/json\r\nContent-Length: " + str(len(body) - 4).encode() + b"\r\n\r\n" + body[:-4])
                sk.shutdown(socket.SHUT_WR)
                raw = b""
                try:
                    while True:
                        ch = sk.recv(65536)
                        if not ch:
                            break
                        raw += ch
                except OSError:
                    pass
                sk.close()
                if not raw.startswith(b"HTTP/"):
                    self.out.update(status="error:no-reply-to-truncated-request")
                    return
                p = jsonrpc.ServerProxy(self.url, version=self.ver)
                v = p.echo(self.token)
                self.out.update(status="ok", result=v if isinstance(v, str) else json.dumps(v))
                return
            p = jsonrpc.ServerProxy(self.url, version=self.ver)
            if self.kind == "rawid":
                # hand-written ids (a string of its own, then 0 twice): every reply is the one to that very request
                def ask(rid, method):
                    body = {"jsonrpc": "2.0", "id": rid, "method": method, "params": [self.token]}
                    if self.ver == 1.0:
                        del body["jsonrpc"]
                    return json.loads(p("transport").request(p._ServerProxy__host, "/", json.dumps(body)))
                got = []
                for rid, method in ((self.token, "restricted"), (0, "restricted"), (0, "nope_" + self.token), (0, "echo"), (False, "restricted")):
                    r = ask(rid, method)
                    rid_back = r.get("id", "<absent>") if isinstance(r, dict) else "<not an object>"
                    same = type(rid_back) is type(rid) and rid_back == rid
                    answered = isinstance(r, dict) and ((method == "echo" and r.get("result") == self.token) or (method != "echo" and isinstance(r.get("error"), dict)))
                    if not (same and answered):
                        got.append("%s(id=%r)->id=%r%s" % (method, rid, rid_back, "" if answered else ",wrong-kind"))
                v = self.token if not got else "foreign-or-lost-id:" + ";".join(got)
                self.out.update(status="ok", result=v)
                return
            if self.kind == "surrogate":
                # a text that is not valid UTF-8 once decoded (a file name read with surrogateescape, say) is still echoed
                odd = self.token + "\udc80\ud83d"
                v = p.echo2(self.token, odd)
                v = self.token if v == odd else "surrogate-mangled:%r" % (v,)
            elif self.kind == "noargs":
                # calls without any argument (the request has no params member in 2.0): each one is served with its own,
                # empty, parameter list whatever the application did with the list of an earlier request
                got = [p.whoami(), p.echo(self.token), p.whoami()]
                v = self.token if got == [1, self.token, 1] else "params-leaked-between-requests:%r" % (got,)
            elif self.kind == "call":
                v = p.echo(self.token)
            elif self.kind == "slow":
                v = p.slow(self.token)
            elif self.kind == "notify":
                p._notify.note(self.token)
                v = p.echo(self.token)
            elif self.kind == "batch":
                mc = jsonrpc.MultiCall(p)
                mc.echo(self.token)
                mc.echo(self.token + "#2")
                r = mc()
                v = r[0] if (r[0] + "#2") == r[1] else "batch-mismatch:%s/%s" % (r[0], r[1])
            elif self.kind in ("fail", "failhard"):
                try:
                    (p.boom if self.kind == "fail" else p.boomhard)(self.token)
                    v = "no-error"
                except jsonrpc.ProtocolError:
                    v = p.echo(self.token)
            else:
                v = p.echo(self.token)
            self.out.update(status="ok", result=v if isinstance(v, str) else json.dumps(v))
            try:
                p("close")()
            except BaseException:  # noqa
                pass
        except BaseException as e:  # noqa
            self.out.update(status="error:" + type(e).__name__)


def run_word(word, cls, transport, poolcfg, rnd, rundir, counter, plan=None):
    plan_out, plan_in = [], list(plan or [])
    execs = {}
    lock = threading.Lock()

    def count(tok):
        with lock:
            execs[tok] = execs.get(tok, 0) + 1

    def echo(tok):
        count(tok)
        return tok

    def echo2(tok, text):
        count(tok)
        return text

    def slow(tok):
        count(tok)
        time.sleep(0.03)
        return tok

    def note(tok):
        count("note:" + tok)

    def boom(tok):
        count("boom:" + tok)
        raise RuntimeError("failing method " + tok)

    def boomhard(tok):
        # a method that fails with something that is not an Exception subclass (a stray sys.exit() in user code)
        count("boom:" + tok)
        raise SystemExit("failing method " + tok)
    denied = jsonrpclib.Fault(-32001, "access denied")       # an application constant returned by a method

    def restricted(tok):
        count("restricted:" + tok)
        return denied
    cfg = jsonrpclib.config.Config(version=rnd.choice([1.0, 2.0]))
    pool = None
    pool_id = 0
    before = set(threading.enumerate())
    kw = {"logRequests": False, "config": cfg}
    if transport == "unix":
        path = os.path.join(rundir, "srv%d.sock" % counter[0])
        addr = path
        kw["address_family"] = socket.AF_UNIX
    else:
        addr = ("127.0.0.1", 0)
    if cls == "pooled":
        if poolcfg > 0:
            pool_id = counter[0]
            pool = jsonrpclib.threadpool.ThreadPool(poolcfg, 0, logname="userpool%d" % pool_id)
            pool.start()
            kw["thread_pool"] = pool
        srv = PooledJSONRPCServer(addr, **kw)
    else:
        srv = SimpleJSONRPCServer(addr, **kw)
    for fn, name in ((echo, "echo"), (echo2, "echo2"), (slow, "slow"), (note, "note"), (boom, "boom"), (boomhard, "boomhard"), (restricted, "restricted")):
        srv.register_function(fn, name)

    class App(object):
        """application dispatcher (the documented _dispatch protocol) that completes the positional parameters it is
        given - in place - with the context it adds for its handlers"""
        def _dispatch(self, method, params):
            if method != "whoami":
                raise Exception('method "%s" is not supported' % method)
            if isinstance(params, list):
                params.append("ctx")
                count("whoami")
                return len(params)
            return -1
    srv.register_instance(App())
    accepted = [0]
    orig_pr = srv.process_request

    def counting_pr(request, client_address):
        accepted[0] += 1
        return orig_pr(request, client_address)
    srv.process_request = counting_pr
    url = ("unix+http://" + addr) if transport == "unix" else "http://127.0.0.1:%d/" % srv.server_address[1]
    calls, clients, loops = [], [], []
    for op in word:
        if op == "S":
            t = threading.Thread(target=srv.serve_forever, kwargs={"poll_interval": 0.01}, daemon=True)
            t.start()
            loops.append(t)
            time.sleep(0.03)
            calls.append({"op": "S", "returned": True, "secs": 0.0, "exc": ""})
        elif op == "R":
            batch = []
            kinds = plan_in.pop(0) if plan_in else [[rnd.choice(["call", "call", "slow", "notify", "batch", "invalid", "fail", "truncated", "failhard", "rawid", "surrogate", "noargs"]),
                                                    rnd.choice([1.0, 2.0])] for _ in range(rnd.randint(1, 5))]
            plan_out.append(kinds)
            for kind, ver in kinds:
                counter[0] += 1
                c = Client(url, "tok-%d" % counter[0], kind, ver)
                batch.append(c)
                c.start()
            for c in batch:
                c.join(BOUND)
            clients += batch
            calls.append({"op": "R", "returned": all(not c.is_alive() for c in batch), "secs": 0.0, "exc": ""})
        elif op == "A":
            # requests still in flight when the next life-cycle call is made: slow calls, not awaited here
            batch = []
            a0 = accepted[0]
            kinds = plan_in.pop(0) if plan_in else [["slow", rnd.choice([1.0, 2.0])] for _ in range(rnd.randint(2, 4) if cls == "pooled" else 1)]
            plan_out.append(kinds)
            for kind, ver in kinds:
                counter[0] += 1
                c = Client(url, "tok-%d" % counter[0], kind, ver)
                batch.append(c)
                c.start()
            clients += batch
            deadline = time.time() + BOUND / 2
            while time.time() < deadline and accepted[0] - a0 < len(batch):
                time.sleep(0.002)          # every connection has been accepted: all these requests are in flight
            calls.append({"op": "A", "returned": True, "secs": 0.0, "exc": ""})
        elif op == "D":
            ok, secs, exc = watchdog(srv.shutdown)
            calls.append({"op": "D", "returned": ok, "secs": secs, "exc": exc})
        elif op == "C":
            ok, secs, exc = watchdog(srv.server_close)
            calls.append({"op": "C", "returned": ok, "secs": secs, "exc": exc})
        if not calls[-1]["returned"]:
            break
    for c in clients:
        c.join(BOUND)
    time.sleep(0.05)
    closed_ops = any(c["op"] == "C" and c["returned"] for c in calls)
    try:
        fileno = srv.socket.fileno()
    except BaseException:  # noqa
        fileno = -1
    # workers of the pool the server stops: threads created since the server was built and named after the pool
    prefix = ("userpool%d-" % pool_id) if poolcfg > 0 else "PooledJSONRPCServer-"
    deadline = time.time() + BOUND / 2
    alive = []
    while cls == "pooled":
        alive = [t.name for t in threading.enumerate() if t not in before and t.name.startswith(prefix) and t.is_alive()]
        if not alive or not closed_ops or time.time() > deadline:
            break
        time.sleep(0.02)
    replies = []
    for c in clients:
        o = dict(c.out)
        o["execs"] = execs.get(c.token, 0)
        o["execs2"] = execs.get(c.token + "#2", 0)
        o["note"] = execs.get("note:" + c.token, 0)
        o["boom"] = execs.get("boom:" + c.token, 0)
        o["restricted"] = execs.get("restricted:" + c.token, 0)
        o["done"] = not c.is_alive()
        replies.append(o)
    if not closed_ops:
        # leave nothing behind
        watchdog(srv.shutdown) if loops and any(t.is_alive() for t in loops) else None
        try:
            srv.socket.close()
        except BaseException:  # noqa
            pass
        if pool is not None:
            watchdog(pool.stop)
    if transport == "unix":
        try:
            os.unlink(addr)
        except OSError:
            pass
    return {"word": word, "cls": cls, "transport": transport, "pool": poolcfg, "plan": plan_out, "calls": calls, "replies": replies,
            "closed": closed_ops, "fileno": fileno, "alive_workers": alive, "loops_alive": sum(1 for t in loops if t.is_alive())}


if __name__ == "__main__":
    import resource
    resource.setrlimit(resource.RLIMIT_AS, (3 << 30, 3 << 30))
    words = json.load(open(sys.argv[2]))
    out, seed, rundir = sys.argv[3], int(sys.argv[4]), sys.argv[5]
    # an unrelated pool of the application lives in the same process all along (resident idle workers): stopping a server
    # concerns the pool of that server only
    bystander = jsonrpclib.threadpool.ThreadPool(2, 2, logname="bystander")
    bystander.start()
    rnd = random.Random(seed)
    counter = [seed * 100000]
    recs = []
    for w in words:
        for cls, transport, poolcfg in w["cfgs"]:
            counter[0] += 1
            recs.append(run_word(w["w"], cls, transport, poolcfg, rnd, rundir, counter, w.get("plan")))
            r = recs[-1]
            if any(not c["returned"] for c in r["calls"]) or any(not x["done"] for x in r["replies"]):
                # something is blocked (or spinning) for good inside this process: write what was recorded and leave at once
                json.dump(recs, open(out, "w"))
                print(len(recs))
                sys.stdout.flush()
                os._exit(0)
    json.dump(recs, open(out, "w"))
    print(len(recs))
