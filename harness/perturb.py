"""History perturbation shared by the binding harnesses: what a caller may legitimately do with objects the library
handed out (modify them in place) before the next call.  The specifications describe every operation as a function of
its arguments and of the modelled state only, so the judged call made AFTER a perturbed prior call must satisfy the
same predicates as a call on fresh objects."""
MARK = "verif-scribble"


def scribble(obj, depth=0, seen=None):
    """Modifies in place every list / dict / bytearray reachable from obj (through containers and tuples)."""
    seen = seen if seen is not None else set()
    if id(obj) in seen or depth > 6:
        return obj
    seen.add(id(obj))
    if isinstance(obj, dict):
        for v in list(obj.values()):
            scribble(v, depth + 1, seen)
        try:
            obj[MARK] = [depth]
        except Exception:  # noqa
            pass
    elif isinstance(obj, list):
        for v in list(obj):
            scribble(v, depth + 1, seen)
        try:
            obj.append(MARK)
        except Exception:  # noqa
            pass
    elif isinstance(obj, tuple):
        for v in obj:
            scribble(v, depth + 1, seen)
    return obj
