"""Recorder for C07 / C15 / C20 (and the dump/load half of C08): object graphs and plain data pushed through the real
jsonclass.dump / jsonclass.load (and through jsonrpc.dumps / loads for the RPC path), with deep snapshots before and
after every call.

  run <out.json> <seed> <n> <mode>     mode: plain | beans | custom | fail | rpc
"""
import copy
import json
import os
import random
import sys

import jsonrpclib
import jsonrpclib.config
from jsonrpclib import jsonclass, jsonrpc
from jsonrpclib.SimpleJSONRPCServer import SimpleJSONRPCDispatcher
from harness import classgen
from harness.values import enc
from harness.errorcheck_run import Loop

ATOMS = [None, True, False, 0, 1, -7, 2 ** 70, -2 ** 63, 0.5, -0.0, 1e308, 5e-324, "", "s", "é", "\u0000x", "𝄞", "0", "null",
         float("inf"), float("-inf")]


def atom(rnd):
    return rnd.choice(ATOMS)


def plain(rnd, depth, sets=True, strkeys=False, tuples=True):
    r = rnd.random()
    if depth <= 0 or r < 0.35:
        return atom(rnd)
    n = rnd.randint(0, 3)
    kind = rnd.choice(["list", "tuple", "dict", "set", "frozenset"] if sets else ["list", "tuple", "dict"] if tuples else ["list", "dict"])
    if kind in ("set", "frozenset"):
        items = []
        for _ in range(n):
            x = atom(rnd)
            if x != x:
                continue
            items.append(x if rnd.random() < 0.8 else tuple(atom(rnd) for _ in range(rnd.randint(0, 2))))
        # avoid members that are equal across types (1 == True, 0 == False == 0.0): a set would merge them
        seen, out = [], []
        for x in items:
            if not any(x == y for y in seen):
                seen.append(x)
                out.append(x)
        return set(out) if kind == "set" else frozenset(out)
    if kind == "dict":
        keys = ["a", "b", "k é", "", "__x__"] if strkeys else ["a", "b", "k é", "", 1, 2.5, None, True, (1, 2)]
        d = {}
        for _ in range(n):
            k = rnd.choice(keys)
            if not any(k == y and type(k) is not type(y) for y in d):
                d[k] = plain(rnd, depth - 1, sets, strkeys, tuples)
        return d
    items = [plain(rnd, depth - 1, sets, strkeys, tuples) for _ in range(n)]
    if tuples and rnd.random() < 0.15:
        # siblings that compare equal although they differ in the type of a primitive or in the sign of zero
        fam = rnd.choice([[(1, 2), (True, 2)], [(0.0,), (-0.0,)], [(1,), (1.0,)], [(0, "a"), (False, "a"), (0.0, "a")],
                          [(True, (1, 0)), (1, (True, False))]] + ([[frozenset([0]), frozenset([False])], [frozenset([1, "x"]), frozenset([True, "x"])]] if sets else []))
        fam = list(fam)
        rnd.shuffle(fam)
        items = items[:1] + fam + items[1:]
    return items if kind == "list" else tuple(items)


class Picky(object):
    """A value of unsupported type whose equality only copes with its own kind (as hand-written beans often do)."""
    def __init__(self, x):
        self.x = x

    def __eq__(self, other):
        return self.x == other.x

    __hash__ = None


def unsupported(rnd):
    import threading
    import datetime
    import fractions
    return rnd.choice([object(), threading.Lock(), (lambda: 1), complex(1, 2), Picky(3), Picky("a"), Ellipsis, iter([1]),
                       fractions.Fraction(1, 3), datetime.date(2020, 1, 2), datetime.timedelta(seconds=5), range(3)])


def call(fn):
    try:
        return {"ok": True, "v": fn(), "exc": ""}
    except BaseException as e:  # noqa
        return {"ok": False, "v": None, "exc": "%s: %s" % (type(e).__name__, str(e)[:100])}


def graph(rnd, W, depth, keys, unsup=False, handled=()):
    """An object graph: beans at the top, in lists, in dicts, in lists held by fields of other beans."""
    def value(what):
        if what == "enumidx":
            return rnd.randint(0, 2)
        if what == "decimal":
            return rnd.choice(["1.5", "0", "-3.25", "1E+3"])
        if what == "json":
            return plain(rnd, 1, sets=False, strkeys=True, tuples=False)
        # a field value: supported types; containers may hold further beans
        r = rnd.random()
        if depth > 0 and r < 0.35:
            inner = [graph(rnd, W, depth - 1, keys, unsup, handled) for _ in range(rnd.randint(1, 2))]
            return inner if rnd.random() < 0.5 else {"k": inner[0], "n": atom(rnd)}
        if r < 0.5:
            return plain(rnd, 2, sets=True, strkeys=True)
        if unsup and r < 0.6:
            if rnd.random() < 0.4:
                # a bean held DIRECTLY by a field: not a supported type - kept only when a handler is registered for its class
                # (classes that merely INHERIT from a handled class are left out: the field filter is an isinstance test, the
                # handler lookup an exact-type one - the statement does not say which reading applies to them)
                ok = [k for k in keys if W.cls[k] in handled or not any(isinstance(t, type) and issubclass(W.cls[k], t) for t in handled)]
                if ok:
                    return W.make(rnd.choice(ok), lambda what: rnd.randint(0, 2) if what == "enumidx" else "1.5" if what == "decimal" else atom(rnd))
            return unsupported(rnd)          # neither supported nor handled: the field is omitted, nothing fails
        return atom(rnd)
    r = rnd.random()
    if depth > 0 and r < 0.25:
        return [graph(rnd, W, depth - 1, keys, unsup, handled) for _ in range(rnd.randint(1, 3))]
    if depth > 0 and r < 0.4:
        return {"x": graph(rnd, W, depth - 1, keys, unsup, handled), "y": atom(rnd)}
    if depth > 0 and r < 0.45:
        return (graph(rnd, W, depth - 1, keys, unsup, handled), atom(rnd))
    return W.make(rnd.choice(keys), value)


def record(W, orig, cfgd, mode, config, ignore, dumped=None, fail_first=False, il_load=None):
    """dumped: outcome of a dump(orig) that was executed elsewhere (under an interleaving) - ("ok", value) | ("exc", text)."""
    rec = {"mode": mode, "CT": W.CT, "cfg": cfgd, "orig": W.enc(orig)}
    if dumped is not None:
        d = {"ok": dumped[0] == "ok", "v": dumped[1] if dumped[0] == "ok" else None, "exc": "" if dumped[0] == "ok" else dumped[1]}
    else:
        d = call(lambda: jsonclass.dump(orig, ignore=ignore, config=config) if ignore is not None else jsonclass.dump(orig, config=config))
    rec["orig_after"] = W.enc(orig)
    rec["dumped"] = {"ok": d["ok"], "v": enc(d["v"]), "exc": d["exc"]}

    def strkeys(v):
        if isinstance(v, dict):
            return all(isinstance(k, str) for k in v) and all(strkeys(x) for x in v.values())
        if isinstance(v, (list, tuple)):
            return all(strkeys(x) for x in v)
        return isinstance(v, (str, int, float, bool, type(None)))
    rec["strkeys"] = bool(d["ok"] and strkeys(d["v"]))
    if d["ok"]:
        # through the JSON text, as it would travel
        try:
            wire = json.loads(jsonrpc.jdumps(d["v"]))      # the library's own JSON backend
            rec["wire_ok"] = True
            if enc(wire) != enc(d["v"]):
                # non-string keys do not survive a JSON text: load the dumped structure itself
                wire = copy.deepcopy(d["v"])
        except (TypeError, ValueError):
            wire, rec["wire_ok"] = copy.deepcopy(d["v"]), False
        if fail_first:
            # the same containers were first handed to a load() that failed below them (a member that cannot be
            # translated, removed again afterwards): the second load behaves like a first one
            holders = []

            def walk(v):
                if isinstance(v, list):
                    holders.append(v)
                    for x in v:
                        walk(x)
                elif isinstance(v, dict) and "__jsonclass__" not in v:
                    holders.append(v)
                    for x in v.values():
                        walk(x)
            walk(wire)
            if holders:
                h = holders[-1]
                bad = {"__jsonclass__": ["no.such.module.Cls", []]}
                if isinstance(h, list):
                    h.append(bad)
                else:
                    h["__verif_bad__"] = bad
                call(lambda: jsonclass.load(wire, config.classes))
                if isinstance(h, list):
                    h.pop()
                else:
                    del h["__verif_bad__"]
        rec["loadin"] = enc(wire)
        if il_load is not None:
            # load(wire) with a complete load() of an equal structure (another thread) placed at line il_load of it
            from harness import interleave
            twin = copy.deepcopy(wire)
            la, lb, fired = interleave.run(lambda: jsonclass.load(wire, config.classes), lambda: jsonclass.load(twin, config.classes), il_load)
            l = {"ok": la[0] == "ok", "v": la[1] if la[0] == "ok" else None, "exc": "" if la[0] == "ok" else la[1]}
            if l["ok"] and lb[0] != "ok":
                l = {"ok": False, "v": None, "exc": "second thread: " + lb[1]}
        else:
            l = call(lambda: jsonclass.load(wire, config.classes))
        rec["loadin_after"] = enc(wire)
        rec["loaded"] = {"ok": l["ok"], "v": W.enc(l["v"]), "exc": l["exc"]}
    else:
        rec["wire_ok"] = False
        rec["loadin"] = rec["loadin_after"] = enc(None)
        rec["loaded"] = {"ok": False, "v": enc(None), "exc": "not attempted"}
    return rec


def interleaved(W, orig, cfgd, mode, config, ignore, rnd, limit):
    """dump(orig) with one complete dump() of a structure SHARING its objects (another thread) placed at a line of the
    library - or of a handler - inside it; both outcomes are recorded and judged like any other dump."""
    from harness import interleave
    other = rnd.choice([orig, [orig, orig], {"k": orig, "n": 1}])
    kw = {"config": config}
    if ignore is not None:
        kw["ignore"] = ignore
    fa = lambda: jsonclass.dump(orig, **kw)
    fb = lambda: jsonclass.dump(other, **kw)
    extra = (os.path.abspath(__file__),)
    out = []
    for k in interleave.sample_points(interleave.points(fa, extra), limit, rnd):
        ra, rb, fired = interleave.run(fa, fb, k, extra)
        out.append(record(W, orig, cfgd, mode, config, ignore, dumped=ra))
        out.append(record(W, other, cfgd, mode, config, ignore, dumped=rb))
    # ... and the load of what was dumped, interleaved with the load of an equal structure
    d0 = call(fa)
    if d0["ok"]:
        try:
            w0 = json.loads(json.dumps(d0["v"]))
            npts = interleave.points(lambda: jsonclass.load(copy.deepcopy(w0), config.classes))
            for k in interleave.sample_points(npts, max(2, limit // 2), rnd):
                out.append(record(W, orig, cfgd, mode, config, ignore, il_load=k))
        except (TypeError, ValueError):
            pass
    return out


def handlers_for(W, rnd, keys):
    """Handler table: maps a type to a function returning a marker (emitted verbatim)."""
    import datetime
    table, H = {}, []
    pool = [("tuple", tuple), ("str", str), ("int", int), ("bool", bool), ("none", type(None)), ("float", float), ("list", list),
            ("dict", dict), ("set", set), ("frozenset", frozenset)] + [(k, W.cls[k]) for k in keys]
    for name, typ in rnd.sample(pool, rnd.randint(0, 3)):
        def h(obj, serialize_method, ignore_attribute, ignore, config, _n=name):
            return {"__handled__": _n}
        table[typ] = h
        H.append(name)
    return table, H


def run(out, seed, n, mode):
    rnd = random.Random(seed)
    recs = []
    custom_names = mode in ("custom", "rpc") and rnd.random() < 0.5
    mk = (lambda: classgen.World("_ser2", "_ign2")) if custom_names else classgen.World
    # two generations of the same class definitions (same names, separate configurations and local class tables):
    # what a name means is relative to the configuration in use
    worlds = [mk(), mk()]
    beans = worlds[0].plain_keys + ["PtL", "PtD", "Color", "Decimal"]
    for it in range(n):
        W = worlds[(it // 7) % 2]
        import sys as _sys
        if it % 6 == 2:
            # the peer named these classes once before their module was available here (the load failed, as it must):
            # what happened to an earlier message does not decide what a name means now
            _sys.modules.pop(classgen.MOD, None)
            for cname in [n_ for n_ in dir(W.mod) if isinstance(getattr(W.mod, n_), type)]:
                call(lambda: jsonclass.load({"__jsonclass__": ["%s.%s" % (classgen.MOD, cname), []]}))
                call(lambda: jsonclass.load({"__jsonclass__": ["%s.%s" % (classgen.MOD, cname), []]}, config=W.config))
        _sys.modules[classgen.MOD] = W.mod
        config = W.config.copy()
        config.classes = W.config.classes
        if mode == "plain":
            orig = plain(rnd, rnd.randint(0, 4), sets=True, strkeys=rnd.random() < 0.6)
            recs.append(record(W, orig, {"H": [], "ign": []}, mode, config, None, fail_first=(it % 5 == 1)))
            if it % 8 == 0:
                recs += interleaved(W, orig, {"H": [], "ign": []}, mode, config, None, rnd, 6)
        elif mode == "beans":
            orig = graph(rnd, W, rnd.randint(0, 2), beans)
            recs.append(record(W, orig, {"H": [], "ign": []}, mode, config, None))
        elif mode == "custom":
            keys = W.plain_keys
            table, H = handlers_for(W, rnd, keys)
            if rnd.random() < 0.5:
                # the Config has already been used for a dump before the handlers are registered
                call(lambda: jsonclass.dump(W.make(rnd.choice(keys), lambda what: 1 if what != "decimal" else "1"), config=config))
                for typ, fn in table.items():
                    config.serialize_handlers[typ] = fn
            else:
                config.serialize_handlers = table
            ign = rnd.sample(["a", "_b", "c", "d", "e", "p", "label", "_D0__c"], rnd.randint(0, 3)) if rnd.random() < 0.7 else None
            orig = graph(rnd, W, rnd.randint(0, 2), keys + ["PtL", "Color"], unsup=True, handled=tuple(table))
            recs.append(record(W, orig, {"H": H, "ign": ["s:" + x for x in (ign or [])]}, mode, config, ign))
            if it % 8 == 0:
                recs += interleaved(W, orig, {"H": H, "ign": ["s:" + x for x in (ign or [])]}, mode, config, ign, rnd, 8)
        elif mode == "fail":
            recs.append(record_failure(W, rnd, config, beans))
        elif mode == "rpc":
            recs.append(record_rpc(W, rnd, config, beans))
    for r in recs:
        r.setdefault("strkeys", False)
    json.dump(recs, open(out, "w"))
    print(len(recs))


def corrupt(rnd, dumped):
    """Makes a well-formed dumped structure fail somewhere inside: unknown class, malformed descriptor, a member that
    cannot be set (slotted class), bad constructor arguments."""
    spots = []

    def walk(v):
        if isinstance(v, dict):
            if "__jsonclass__" in v:
                spots.append(v)
            for x in v.values():
                walk(x)
        elif isinstance(v, list):
            for x in v:
                walk(x)
    walk(dumped)
    if not spots:
        return False
    d = rnd.choice(spots)
    how = rnd.choice(["unknown", "badname", "len1", "scalar", "extra_member", "nested_bad", "badargs"])
    if how == "unknown":
        d["__jsonclass__"] = ["verif_beans.NoSuchClass", []]
    elif how == "badname":
        d["__jsonclass__"] = ["a b.C", []]
    elif how == "len1":
        d["__jsonclass__"] = d["__jsonclass__"][:1]
    elif how == "scalar":
        d["__jsonclass__"] = [d["__jsonclass__"][0], 5]
    elif how == "extra_member":
        d["__jsonclass__"] = ["verif_beans.S0", []]
        d["not_a_slot"] = 1
    elif how == "nested_bad":
        d["zz_member"] = [{"__jsonclass__": ["nowhere.Missing", []]}]
    else:
        d["__jsonclass__"] = [d["__jsonclass__"][0], [1, 2, 3, 4, 5, 6]]
    return True


def record_failure(W, rnd, config, beans):
    orig = graph(rnd, W, rnd.randint(1, 2), beans)
    rec = {"mode": "fail", "CT": W.CT, "cfg": {"H": [], "ign": []}, "orig": W.enc(orig)}
    d = call(lambda: jsonclass.dump(orig, config=config))
    good = d["v"]
    rec["orig_after"] = W.enc(orig)
    try:
        wire = json.loads(json.dumps(good))
    except (TypeError, ValueError):
        wire = copy.deepcopy(good)
    corrupted = corrupt(rnd, wire)
    rec["dumped"] = {"ok": d["ok"], "v": enc(good), "exc": d["exc"]}
    rec["wire_ok"] = False                      # round trip is not claimed for corrupted input
    rec["loadin"] = enc(wire)
    l = call(lambda: jsonclass.load(wire, config.classes))
    rec["loadin_after"] = enc(wire)
    rec["loaded"] = {"ok": l["ok"], "v": W.enc(l["v"]) if l["ok"] else enc(None), "exc": l["exc"]}
    rec["corrupted"] = corrupted
    return rec


def record_rpc(W, rnd, config, beans):
    """The object travels as a parameter and comes back as a result through ServerProxy <-> dispatcher."""
    orig = graph(rnd, W, rnd.randint(0, 2), beans)
    ver = rnd.choice([1.0, 2.0])
    config.version = ver
    srv_cfg = config.copy()
    srv_cfg.classes = config.classes
    srv_cfg.version = rnd.choice([1.0, 2.0])
    # every kind of server object takes the Config (local class table, method / attribute names) the same way
    kind = rnd.choice(["dispatcher", "dispatcher", "simple", "pooled"])
    if kind == "dispatcher":
        disp = SimpleJSONRPCDispatcher(config=srv_cfg)
    else:
        from jsonrpclib.SimpleJSONRPCServer import SimpleJSONRPCServer, PooledJSONRPCServer
        disp = (SimpleJSONRPCServer if kind == "simple" else PooledJSONRPCServer)(("127.0.0.1", 0), logRequests=False, config=srv_cfg)
    got = []

    def echo(x):
        got.append(W.enc(x))
        return x
    disp.register_function(echo, "echo")

    class T(Loop):
        def request(self, host, handler, body, verbose=0):
            return disp._marshaled_dispatch(body)
    rec = {"mode": "rpc", "CT": W.CT, "cfg": {"H": [], "ign": []}, "orig": W.enc(orig)}
    if rnd.random() < 0.4:
        # a proxy speaking the other version than its configuration, built BEFORE the local classes are registered in
        # that (shared, mutable) configuration
        ccfg = config.copy()
        ccfg.classes = type(jsonrpclib.config.Config().classes)()
        ccfg.version = 1.0 if ver == 2.0 else 2.0
        proxy = jsonrpc.ServerProxy("http://loop/", transport=T(""), version=ver, config=ccfg)
        ccfg.classes.update(config.classes)
    else:
        proxy = jsonrpc.ServerProxy("http://loop/", transport=T(""), version=ver, config=config)
    res = call(lambda: proxy.echo(orig))
    if kind != "dispatcher":
        try:
            disp.server_close()
        except BaseException:  # noqa
            pass
    rec["orig_after"] = W.enc(orig)
    d = call(lambda: jsonclass.dump(orig, config=config))
    rec["dumped"] = {"ok": d["ok"], "v": enc(d["v"]), "exc": d["exc"]}

    def strkeys(v):
        if isinstance(v, dict):
            return all(isinstance(k, str) for k in v) and all(strkeys(x) for x in v.values())
        if isinstance(v, (list, tuple)):
            return all(strkeys(x) for x in v)
        return isinstance(v, (str, int, float, bool, type(None)))
    rec["strkeys"] = bool(d["ok"] and strkeys(d["v"]))
    rec["wire_ok"] = True
    rec["loadin"] = rec["loadin_after"] = enc(None)
    # "loaded" is what the remote callable received; "returned" what came back to the caller
    rec["loaded"] = {"ok": len(got) == 1, "v": got[0] if got else enc(None), "exc": "" if got else "callable not invoked once: %d" % len(got)}
    rec["returned"] = {"ok": res["ok"], "v": W.enc(res["v"]), "exc": res["exc"]}
    return rec


if __name__ == "__main__":
    run(sys.argv[2], int(sys.argv[3]), int(sys.argv[4]), sys.argv[5])
