"""Spec growth (ClientSession.tla): random operation words on a real ServerProxy with an attached History and a
MultiCall, against a raw peer that can be told to fail the next exchange (HTTP 500 with a body).
  run <out.json> <seed> <n>"""
import json
import random
import socket
import sys
import threading

from jsonrpclib import jsonrpc
from jsonrpclib.history import History
from harness.netpeer import _recv_request


class SessionPeer(object):
    def __init__(self):
        self.sock = socket.socket(socket.AF_INET, socket.SOCK_STREAM)
        self.sock.bind(("127.0.0.1", 0))
        self.sock.listen(16)
        self.sock.settimeout(None)
        self.port = self.sock.getsockname()[1]
        self.lock = threading.Lock()
        self.messages, self.accepted, self.fail_next = [], 0, False
        threading.Thread(target=self._serve, daemon=True).start()

    def _serve(self):
        while True:
            try:
                conn, _ = self.sock.accept()
            except OSError:
                return
            with self.lock:
                self.accepted += 1
            threading.Thread(target=self._conn, args=(conn,), daemon=True).start()

    @staticmethod
    def _answer(req):
        def one(r):
            return {"jsonrpc": "2.0", "id": r["id"], "result": "r-" + str(r["method"])} if "id" in r and r["id"] is not None else None
        if isinstance(req, list):
            res = [x for x in (one(r) for r in req) if x is not None]
            return json.dumps(res).encode() if res else b""
        x = one(req)
        return json.dumps(x).encode() if x is not None else b""

    def _conn(self, conn):
        buf = b""
        try:
            while True:
                r = _recv_request(conn, buf)
                if r is None:
                    return
                head, body, buf = r
                req = json.loads(body.decode("utf-8"))
                kinds = [("c" if ("id" in x and x["id"] is not None) else "n") for x in (req if isinstance(req, list) else [req])]
                with self.lock:
                    self.messages.append({"t": "batch" if isinstance(req, list) else "single", "ks": kinds})
                    fail, self.fail_next = self.fail_next, False
                if fail:
                    conn.sendall(b"HTTP/1.1 500 Injected\r\nContent-Type: text/plain\r\nContent-Length: 4\r\n\r\noops")
                else:
                    out = self._answer(req)
                    conn.sendall(b"HTTP/1.1 200 OK\r\nContent-Type: application/json-rpc\r\nContent-Length: " + str(len(out)).encode() + b"\r\n\r\n" + out)
        except (OSError, ValueError):
            pass
        finally:
            conn.close()


def outcome(fn, classify):
    try:
        return classify(fn())
    except jsonrpc.TransportError:
        return {"k": "raise", "n": 0}
    except BaseException as e:  # noqa
        return {"k": "raise:" + type(e).__name__, "n": 0}


def run_word(peer, rnd, length):
    hist = History()
    p = jsonrpc.ServerProxy("http://127.0.0.1:%d/" % peer.port, history=hist)
    mc = jsonrpc.MultiCall(p)
    with peer.lock:
        m0, a0 = len(peer.messages), peer.accepted
    ev = []
    for _ in range(length):
        op = rnd.choice(["call", "notify", "add", "add", "run", "run", "close"])
        f = op in ("call", "notify", "run") and rnd.random() < 0.3
        k = rnd.choice(["c", "n"])
        will_send = op in ("call", "notify") or (op == "run" and len(mc._job_list) > 0)
        if f and will_send:
            with peer.lock:
                peer.fail_next = True
        if op == "call":
            last = outcome(lambda: p.ping(1), lambda v: {"k": "result" if v == "r-ping" else "wrong", "n": 1})
        elif op == "notify":
            last = outcome(lambda: p._notify.note(1), lambda v: {"k": "none" if v is None else "wrong", "n": 0})
        elif op == "add":
            (mc if k == "c" else mc._notify).job(len(ev))
            last = {"k": "job", "n": len(mc._job_list)}
        elif op == "run":
            last = outcome(lambda: mc(), lambda v: {"k": "none", "n": 0} if v is None else {"k": "results", "n": len(list(v))})
        else:
            p("close")()
            last = {"k": "none", "n": 0}
        with peer.lock:
            wire = list(peer.messages[m0:])
            opened = peer.accepted - a0
        ev.append({"op": op, "f": bool(f), "k": k, "jobs": ["n" if j.notify else "c" for j in mc._job_list], "wire": wire,
                   "hreq": len(hist.requests), "hresp": len(hist.responses), "opened": opened, "last": last})
    p("close")()
    return {"ev": ev}


if __name__ == "__main__":
    out, seed, n = sys.argv[2], int(sys.argv[3]), int(sys.argv[4])
    rnd = random.Random(seed)
    peer = SessionPeer()
    traces = [run_word(peer, rnd, rnd.randint(1, 9)) for _ in range(n)]
    json.dump(traces, open(out, "w"))
    print(len(traces))
