"""Concretiser / recorder for the dispatcher properties (C02, C03, C04 inline, C05, C13 sequential).

  enum  <cases.json> <out.json> <seed> <k>     abstract single entries from MC_Dispatcher, k concretisations each
  batch <n> <out.json> <seed>                  random batches of 1..4 entries over the abstract classes
  fuzz  <n> <out.json> <seed>                  truncations / one-character corruptions of valid bodies, random text

Every record holds the concrete body, the per-entry values through the value bridge, the dispatcher's output, the number
of executions attributed to each entry and what a ServerProxy makes of the reply."""
import json
import logging
import random
import re
import sys

import jsonrpclib
import jsonrpclib.config
from jsonrpclib import jsonrpc
from jsonrpclib.SimpleJSONRPCServer import SimpleJSONRPCDispatcher
from harness.values import enc
from harness.errorcheck_run import Loop

logging.disable(logging.CRITICAL)
NALIAS = 4
EXC = [RuntimeError, ValueError, KeyError, ZeroDivisionError, OSError, LookupError]


class CustomError(Exception):
    pass


class HardStop(BaseException):
    """What a stray sys.exit() / a cancelled task in user code raises: not an Exception subclass."""


class Unconvertible(object):
    """A value whose conversion fails: its serialisation method raises."""
    def _serialize(self):
        raise ValueError("cannot serialise this")


def cfg_snapshot(c):
    """Field-by-field snapshot of a Config (containers by content)."""
    d = dict(vars(c))
    d["classes"] = sorted((str(k), repr(v)) for k, v in c.classes.items())
    d["serialize_handlers"] = sorted((repr(k), repr(v)) for k, v in c.serialize_handlers.items())
    return json.dumps(d, sort_keys=True, default=repr)


class World(object):
    pooled = False

    def settle(self):
        """waits until the notification pool (if any) has run what it was given"""
        if self.pooled:
            pool = getattr(self.d, "_SimpleJSONRPCDispatcher__notification_pool", None)
            try:
                pool.join(5)
            except BaseException:  # noqa
                pass

    """A dispatcher with a registry of recorder callables; calls[j] counts body executions attributed to alias j."""

    def __init__(self, sv, rnd, allow_pool=True, allow_default=False):
        self.calls = {}
        self.cfg = jsonrpclib.config.Config(version=rnd.choice([1.0, 1]) if sv == "1" else rnd.choice([2.0, 2.0, 2]))
        if rnd.random() < 0.5:
            # a serialisation handler that refuses the value it is given: the reply is the conversion error, as without
            # it, and the Config is left exactly as it was
            def refusing(obj, serialize_method, ignore_attribute, ignore, config):
                raise TypeError("cannot serialise this")
            self.cfg.serialize_handlers[Unconvertible] = refusing
        self.d = SimpleJSONRPCDispatcher(config=self.cfg)
        if allow_default and sv == "2" and jsonrpclib.config.DEFAULT.version == 2.0 and rnd.random() < 0.15:
            # a dispatcher left with the process-wide default configuration, in a process where clients are built as
            # well (no request is sent): whatever a client is constructed with stays its own business
            from jsonrpclib import jsonrpc as _client
            self.cfg = jsonrpclib.config.DEFAULT
            self.d = SimpleJSONRPCDispatcher()
            for v in (rnd.choice(["2.0", 2, 2.0]), rnd.choice([2.0, "2.0"])):
                try:
                    _client.ServerProxy("http://127.0.0.1:9/", version=v)
                    _client.ServerProxy("http://127.0.0.1:9/", version=v, config=self.cfg)
                except BaseException:  # noqa
                    pass
        self.pooled = rnd.random() < 0.06 and allow_pool
        if self.pooled:
            # notifications handed to a pool that only the dispatcher refers to (built by a factory, as a server's
            # constructor would): they are executed all the same, and nothing is answered
            def attach(d):
                from jsonrpclib.threadpool import ThreadPool
                pool = ThreadPool(2, 0, timeout=0.05, logname="verif-notif")
                pool.start()
                d.set_notification_pool(pool)
            attach(self.d)
            import gc
            gc.collect()
        self.cfg0 = cfg_snapshot(self.cfg)
        self.default0 = cfg_snapshot(jsonrpclib.config.DEFAULT)
        self.excinfo = {}
        w = self

        def rec(j):
            w.calls[j] = w.calls.get(j, 0) + 1
        for j in range(1, NALIAS + 1):
            def ok(*a, **k):
                jj = k.pop("_j")
                rec(jj)
                if jj == 2:
                    return {"echo": list(a), "kw": k, 1: "one", None: 0}    # (keys of several types: the JSON text has string keys)
                return None if jj == NALIAS else {"echo": list(a), "kw": k}        # (one alias is a void method)
            ok = (lambda f, jj: (lambda *a, **k: f(*a, _j=jj, **k)))(ok, j)
            ecls = rnd.choice(EXC + [CustomError, HardStop, SystemExit])
            etext = rnd.choice(["boom", "bad value 42", "x y z", "é fail"])
            self.excinfo[j] = (ecls.__name__, etext)

            def rs(*a, **k):
                rec(k["_j"])
                raise k["_e"](k["_t"])
            rs = (lambda f, jj, ee, tt: (lambda *a, **k: f(*a, _j=jj, _e=ee, _t=tt)))(rs, j, ecls, etext)

            def te(*a, **k):
                rec(k["_j"])
                raise TypeError("inside the body")
            te = (lambda f, jj: (lambda *a, **k: f(*a, _j=jj)))(te, j)

            def mkba(jj):
                def ba(a, b):
                    rec(jj)
                    return [a, b]
                return ba
            ba = mkba(j)

            def cf(*a, **k):
                rec(k["_j"])
                return Unconvertible()
            cf = (lambda f, jj: (lambda *a, **k: f(*a, _j=jj)))(cf, j)
            def rf(*a, **k):
                rec(k["_j"])
                return jsonrpclib.Fault(-32050, "user fault")        # its own Fault, built with the default Config
            rf = (lambda f, jj: (lambda *a, **k: f(*a, _j=jj)))(rf, j)
            for name, fn in (("ok", ok), ("raise", rs), ("typeerr", te), ("badarity", ba), ("convfail", cf), ("retfault", rf)):
                self.d.register_function(fn, "%s_%d" % (name, j))

        class Sub(object):
            pass

        class Inst(object):
            pass
        inst, sub = Inst(), Sub()
        inst.sub = sub
        inst._sub = sub
        for j in range(1, NALIAS + 1):
            def mk(jj):
                def m(*a, **k):
                    rec(jj)
                    return "inst-%d" % jj
                return m
            setattr(inst, "pub_%d" % j, mk(j))
            setattr(inst, "_priv_%d" % j, mk(j))
            setattr(sub, "meth_%d" % j, mk(j))
            setattr(sub, "_hid_%d" % j, mk(j))
        self.d.register_instance(inst)
        self.inst = inst

    def custom(self, method, params):
        m = re.search(r"_(\d)$", method) if isinstance(method, str) else None
        j = int(m.group(1)) if m else 0
        self.calls[j] = self.calls.get(j, 0) + 1
        if isinstance(method, str) and method.startswith("raise"):
            raise RuntimeError("custom boom")
        if isinstance(method, str) and method.startswith("convfail"):
            return Unconvertible()
        if isinstance(method, str) and method.startswith("retfault"):
            return jsonrpclib.Fault(-32050, "user fault")
        return None if j == NALIAS else ["custom", j]


def method_name(mc, j, rnd):
    return {"ok": "ok_%d", "raise": "raise_%d", "typeerr": "typeerr_%d", "badarity": "badarity_%d", "convfail": "convfail_%d",
            "retfault": "retfault_%d",
            "unknown": rnd.choice(["nope_%d", "ok_%d.x", "Ok_%d", "sub_%d", "méthode_%d", "system.listMethods_%d", "lone\ud83d_%d"]),
            "inst_pub": "pub_%d", "inst_nested": "sub.meth_%d",
            "inst_priv": rnd.choice(["_priv_%d", "__class___%d"]),
            "inst_nested_priv": rnd.choice(["sub._hid_%d", "_sub.meth_%d", "sub.__dict___%d"])}[mc] % j


def classify_method(name, world, dk="default"):
    """Semantic class of a method-name string against the registry (mirror of funcs lookup + resolve_dotted_attribute);
    under the harness' custom dispatch function the name prefix decides."""
    if dk == "custom":
        return ("raise" if name.startswith("raise") else "convfail" if name.startswith("convfail")
                else "retfault" if name.startswith("retfault") else "ok")
    if name in world.d.funcs:
        return name.rsplit("_", 1)[0]
    parts = name.split(".")
    if any(p.startswith("_") for p in parts):
        return "inst_priv" if len(parts) == 1 else "inst_nested_priv"
    obj = world.inst
    for p in parts:
        if not hasattr(obj, p):
            return "unknown"
        obj = getattr(obj, p)
    if not callable(obj):
        return "unknown"
    return "inst_pub" if len(parts) == 1 else "inst_nested"


def alias_of(name):
    m = re.search(r"_(\d)$", name) if isinstance(name, str) else None
    return int(m.group(1)) if m else 0


def make_entry(e, j, rnd):
    """Concrete entry for the abstract entry e (coarse classes) with alias index j."""
    if not e["obj"]:
        return rnd.choice([None, True, 5, "str", [1, 2], [], 0, 1.5])
    d = {}
    if e["jr"]:
        d["jsonrpc"] = rnd.choice(["2.0", "2.0", "2.0", "1.0", "abc", 2, None, [], 2.0])
    idc = e["idc"]
    if idc == "null":
        d["id"] = None
    elif idc == "empty":
        d["id"] = ""
    elif idc == "other":
        d["id"] = rnd.choice([0, False, True, 5, -3, 1.5, "abc", "0", [], [1, "a"], {}, {"a": [1]}, 0.0, 2 ** 53, -0.0, " ", "é"])
    mc = e["mc"]
    if mc == "nonstr":
        d["method"] = rnd.choice([5, ["ok_1"], {"m": 1}, True, None, 0])
    elif mc == "empty":
        d["method"] = ""
    elif mc != "absent":
        d["method"] = method_name(mc, j, rnd)
    pc = e["pc"]
    if pc == "other":
        d["params"] = rnd.choice([5, "str", None, True, 0, 1.5])
    elif pc == "container":
        if mc == "badarity":
            d["params"] = rnd.choice([[], [1], [1, 2, 3], {"a": 1}, {"x": 1, "y": 2}, {}])
        else:
            d["params"] = rnd.choice([[], [1], [1, "é", None], {"k": 1}, {}, [[1, 2], {"a": None}]])
    items = list(d.items())
    rnd.shuffle(items)
    return dict(items)


def analyse(text):
    """Body kind and entries, by the standard-library parser (NaN / Infinity literals put a body outside the domain)."""
    if text == "":
        return "emptytext", None, []
    try:
        v = json.loads(text, parse_constant=lambda c: (_ for _ in ()).throw(ValueError("non-standard literal")))
    except ValueError:
        try:
            json.loads(text)
            return "outside", None, []
        except ValueError:
            return "unparseable", None, []
    except RecursionError:
        return "outside", None, []
    if isinstance(v, dict) and v:
        return "object", v, [v]
    if isinstance(v, list) and v:
        return "array", v, v
    if not v:
        return "falsy", v, []
    return "scalar", v, []


def has_jsonclass(v):
    if isinstance(v, dict):
        return "__jsonclass__" in v or any(has_jsonclass(x) for x in v.values())
    if isinstance(v, list):
        return any(has_jsonclass(x) for x in v)
    return False


def run_body(text, sv, dk, rnd, src, world=None, jc=None, pre=None, foreign=None):
    """jc: None (payload free of __jsonclass__), "reject" (the class translator must reject the payload: -32700, nothing
    runs) or "ok" (descriptors of side-effect-free classes only: judged for C02 only)."""
    world = world or World(sv, rnd, allow_default=True)
    bk, top, entries = analyse(text)
    if bk == "outside" or (jc is None and top is not None and has_jsonclass(top)):
        return None
    if jc == "reject":
        bk, entries = "unparseable", []
    if pre is None:
        world.calls.clear()
    elif foreign:
        for fa_ in foreign:
            world.calls.pop(fa_, None)         # (executions caused by the OTHER thread's request are not this one's)
    out = {"raised": False, "exc": "", "kind": "empty", "array": False, "replies": []}
    try:
        if pre is not None:
            # the dispatch took place elsewhere (under an interleaving with another request): ("ok", text) | ("exc", what)
            if pre[0] != "ok":
                raise RuntimeError(pre[1])
            res = pre[1]
        else:
            res = world.d._marshaled_dispatch(text, world.custom if dk == "custom" else None)
        if not isinstance(res, str):
            out.update(kind="nonjson", exc="returned " + type(res).__name__)
        elif res == "":
            out["kind"] = "empty"
        else:
            try:
                res.encode("utf-8")
            except UnicodeError as ue:
                # a "text" that no transport can send is not a JSON text
                raise AssertionError("reply cannot be encoded as UTF-8: %s" % str(ue)[:60])
            try:
                pv = json.loads(res)
                out["kind"] = "json"
                out["array"] = isinstance(pv, list)
                reps = pv if isinstance(pv, list) else [pv]
                out["replies"] = reps
            except ValueError:
                out["kind"] = "nonjson"
    except BaseException as e:  # noqa
        out.update(raised=True, exc="%s: %s" % (type(e).__name__, str(e)[:100]))
        res = None
    world.settle()
    ents = []
    for ent in entries:
        mc = "-"
        if isinstance(ent, dict) and isinstance(ent.get("method"), str) and ent.get("method"):
            mc = classify_method(ent["method"], world, dk)
            if mc == "badarity":
                prm = ent.get("params", [])
                if (isinstance(prm, list) and len(prm) == 2) or (isinstance(prm, dict) and set(prm) == {"a", "b"}):
                    mc = "ok"          # the arguments happen to fit badarity_j(a, b): an ordinary successful call
        j = alias_of(ent.get("method")) if isinstance(ent, dict) else 0
        ents.append({"mc": mc, "v": enc(ent), "ncalls": world.calls.get(j, 0) if j else sum(world.calls.values()) if len(entries) == 1 else 0, "alias": j})
    # message of -32603 replies names the exception type and text (substring tests are done here, TLC asserts the flags)
    flags = []
    for rep in out["replies"]:
        ok_t = ok_x = True
        if isinstance(rep, dict) and isinstance(rep.get("error"), dict) and rep["error"].get("code") == -32603:
            msg = rep["error"].get("message")
            ok_t = ok_x = False
            if isinstance(msg, str):
                for (tn, tx) in list(world.excinfo.values()) + [("RuntimeError", "custom boom"), ("ValueError", "cannot serialise this"), ("TypeError", "cannot serialise this")]:
                    if tn in msg and tx in msg:
                        ok_t = ok_x = True
        flags.append({"hasType": ok_t, "hasText": ok_x})
    # the client half: what ServerProxy raises for a single reply
    client = {"kind": "-", "code": enc(None)}
    if bk in ("object", "unparseable", "falsy", "scalar") and out["kind"] == "json" and not out["array"]:
        try:
            jsonrpc.ServerProxy("http://loop/", transport=Loop(res)).anything()
            client = {"kind": "return", "code": enc(None)}
        except jsonrpc.ProtocolError as e:
            a0 = e.args[0] if e.args else None
            client = {"kind": "ProtocolError", "code": enc(a0[0] if isinstance(a0, tuple) and a0 else None)}
        except BaseException as e:  # noqa
            client = {"kind": type(e).__name__, "code": enc(None)}
    return {"sv": sv, "dk": dk, "src": src, "body": text if len(text) < 300 else text[:300] + "...", "bk": bk, "entries": ents,
            "out": {"raised": out["raised"], "exc": out["exc"], "kind": out["kind"], "array": out["array"],
                    "replies": [enc(r) for r in out["replies"]], "flags": flags},
            "client": client,
            "cfgsame": cfg_snapshot(world.cfg) == world.cfg0 and cfg_snapshot(jsonrpclib.config.DEFAULT) == world.default0,
            "total_calls": sum(world.calls.values())}


def gen_jsonclass(n, rnd):
    """Bodies carrying __jsonclass__ descriptors: side-effect-free classes (decimal.Decimal), unresolvable names,
    invalid names, malformed descriptors - at the id, in params, nested."""
    good = [{"__jsonclass__": ["decimal.Decimal", ["1.5"]]}, {"__jsonclass__": ["decimal.Decimal", ["0"]]},
            {"__jsonclass__": ["fractions.Fraction", [1, 3]]},
            # side-effect-free classes whose instances, built this way, cannot tell their length / truth value
            {"__jsonclass__": ["collections.UserList", []], "data": 5}, {"__jsonclass__": ["collections.UserDict", []], "data": 5},
            {"__jsonclass__": ["collections.UserString", ["x"]], "data": 5}, {"__jsonclass__": ["collections.OrderedDict", []]},
            {"__jsonclass__": ["collections.UserList", [[1]]]}]
    bad = [{"__jsonclass__": ["no.such.module.Cls", []]}, {"__jsonclass__": ["decimal.NoSuchClass", []]},
           {"__jsonclass__": ["a b.C", []]}, {"__jsonclass__": ["", []]}, {"__jsonclass__": ["os;system", ["x"]]},
           {"__jsonclass__": ["decimal.Decimal", 5]}, {"__jsonclass__": ["decimal.Decimal", ["x", "y", "z", "t"]]},
           {"__jsonclass__": ["NoModuleName", []]}, {"__jsonclass__": ["decimal.Decimal", "abc"]},
           # descriptors the translator fails on with something else than its own error type
           {"__jsonclass__": ["decimal.Decimal"]}, {"__jsonclass__": []}, {"__jsonclass__": {"a": 1}},
           {"__jsonclass__": ["decimal.Decimal", ["abc"]]}, {"__jsonclass__": ["fractions.Fraction", [1, 0]]},
           {"__jsonclass__": ["datetime.date", [10 ** 20, 1, 1]]}, {"__jsonclass__": ["datetime.date", [2020, 1, 2]], "extra": 1},
           {"__jsonclass__": "x"}, {"__jsonclass__": 5}, {"__jsonclass__": None}, {"__jsonclass__": ["decimal.Decimal", None]},
           {"__jsonclass__": [5, []]}, {"__jsonclass__": [None, []]}, {"__jsonclass__": [["a"], []]}]
    recs = []
    for _ in range(n):
        sv, dk = rnd.choice("12"), rnd.choice(["default", "default", "custom"])
        use_bad = rnd.random() < 0.5
        d = rnd.choice(bad if use_bad else good)
        ent = {"jsonrpc": "2.0", "method": "ok_1", "id": rnd.choice([1, "a", 0])}
        where = rnd.choice(["id", "params", "nested", "dictparam", "extra", "top", "method", "jsonrpc", "wholeparams"])
        if where == "top":
            ent = d                      # the request itself is the translated object
        elif where == "method":
            ent["method"] = d
        elif where == "jsonrpc":
            ent["jsonrpc"] = d
        elif where == "wholeparams":
            ent["params"] = d
        elif where == "id":
            ent["id"] = d
        elif where == "params":
            ent["params"] = [d]
        elif where == "nested":
            ent["params"] = [[1, {"k": [d]}]]
        elif where == "dictparam":
            ent["params"] = {"a": d}
        else:
            ent["x"] = d
        body = ent if rnd.random() < 0.6 else [ent, {"jsonrpc": "2.0", "method": "ok_2", "id": 7}]
        r = run_body(dumps(body, rnd), sv, dk, rnd, "jsonclass", jc="reject" if use_bad else "ok")
        if r:
            recs.append(r)
    # a class known to ONE dispatcher only (its Config's local class table): the same payload is translated there and
    # must still be rejected by every other dispatcher of the process, before and after
    class VerifLocalBean(object):
        pass
    VerifLocalBean.__module__ = "__main__"
    for k in range(max(3, n // 40)):
        sv, dk = rnd.choice("12"), rnd.choice(["default", "custom"])
        ent = {"jsonrpc": "2.0", "method": "ok_1", "id": k + 1, "params": [{"__jsonclass__": ["VerifLocalBean", []], "x": k}]}
        text = dumps(ent, rnd)
        for knows in rnd.choice([(False, True, False), (True, False), (True, False, True, False)]):
            world = World(sv, rnd)
            if knows:
                world.cfg.classes.add(VerifLocalBean)
                world.cfg0 = cfg_snapshot(world.cfg)
            r = run_body(text, sv, dk, rnd, "jsonclass", world=world, jc="ok" if knows else "reject")
            if r:
                recs.append(r)
    return recs


def gen_hist(n, rnd):
    """Histories: several bodies served one after the other by the SAME dispatcher (C13: a reply depends on its own
    request only; serving never changes the Config objects)."""
    recs = []
    for _ in range(n):
        sv, dk = rnd.choice("12"), rnd.choice(["default", "default", "custom"])
        world = World(sv, rnd, allow_pool=False)      # (executions are attributed per thread here: no third party runs them)
        if rnd.random() < 0.3:
            world.cfg = world.d.json_config = jsonrpclib.config.DEFAULT if sv == "2" else world.cfg
            world.cfg0 = cfg_snapshot(world.cfg)
        earlier = []
        for _step in range(rnd.randint(2, 5)):
            if rnd.random() < 0.25:
                # a request whose id is a bean (the reply cannot be converted: the fall-back error path), valid or not,
                # in either version - after whatever was served before
                ent = {"method": rnd.choice(["ok_1", "ok_2", 5, "nope_1"]), "id": {"__jsonclass__": ["decimal.Decimal", [rnd.choice(["1.5", "0"])]]}}
                if rnd.random() < 0.6:
                    ent["jsonrpc"] = "2.0"
                r = run_body(dumps(ent, rnd), sv, dk, rnd, "jsonclass", world=world, jc="ok")
                if r:
                    recs.append(r)
                continue
            m = rnd.choice([0, 0, 0, 1, 2, 3])
            ents = [make_entry(random_entry_class(rnd), j + 1, rnd) for j in range(max(1, m))]
            again = [e for e in earlier if isinstance(e, dict) and "id" in e]
            if again and rnd.random() < 0.35:
                # the request of an earlier step of this history once more, under another id
                e2 = dict(rnd.choice(again))
                e2["id"] = rnd.choice([0, 7, "again", 2.5, [1, 2], {"a": 1}, False, -1])
                pos = rnd.randrange(len(ents))
                others = [alias_of(x.get("method")) for k2, x in enumerate(ents) if k2 != pos and isinstance(x, dict)]
                if alias_of(e2.get("method")) not in others:       # (executions are attributed to entries by their alias)
                    ents[pos] = e2
            earlier.extend(ents)
            text = dumps(ents[0] if m == 0 else ents, rnd)
            if rnd.random() < 0.08:
                text = text[:rnd.randint(0, len(text))]
            r = run_body(text, sv, dk, rnd, "history", world=world)
            if r:
                recs.append(r)
    return recs


def gen_interleaved(n, rnd, limit):
    """Two requests served by ONE dispatcher on two threads: the second one complete between two lines of the first
    (harness/interleave.py).  Each reply is judged against its own request, as if it had been served alone."""
    from harness import interleave
    recs = []
    valid = ["ok", "ok", "raise", "unknown", "inst_pub", "inst_nested", "retfault", "convfail"]
    for _ in range(n):
        sv, dk = rnd.choice("12"), rnd.choice(["default", "default", "custom"])
        world = World(sv, rnd, allow_pool=False)      # (executions are attributed per thread here: no third party runs them)
        if rnd.random() < 0.3 and sv == "2":
            world.cfg = world.d.json_config = jsonrpclib.config.DEFAULT
            world.cfg0 = cfg_snapshot(world.cfg)
        ea = make_entry(dict(random_entry_class(rnd), obj=True), 1, rnd)
        eb = make_entry(dict(random_entry_class(rnd), obj=True, mc=rnd.choice(valid), pc=rnd.choice(["absent", "container"])), 2, rnd)
        while alias_of(eb.get("method")) != 2:           # (its executions must be attributable to it by the alias)
            eb = make_entry(dict(random_entry_class(rnd), obj=True, mc=rnd.choice(valid), pc=rnd.choice(["absent", "container"])), 2, rnd)
        ta = dumps(ea if rnd.random() < 0.8 else [ea, make_entry(dict(random_entry_class(rnd), obj=True), 3, rnd)], rnd)
        tb = dumps(eb, rnd)
        custom = world.custom if dk == "custom" else None
        fa = lambda: world.d._marshaled_dispatch(ta, custom)
        fb = lambda: world.d._marshaled_dispatch(tb, custom)
        npts = interleave.points(fa)
        for k in interleave.sample_points(npts, limit, rnd):
            world.calls.clear()
            ra, rb, fired = interleave.run(fa, fb, k)
            snap = dict(world.calls)
            r1 = run_body(ta, sv, dk, rnd, "interleaved", world=world, pre=ra, foreign=(2,))
            world.calls.clear()
            world.calls.update(snap)
            r2 = run_body(tb, sv, dk, rnd, "interleaved", world=world, pre=rb, foreign=(0, 1, 3))
            recs += [r for r in (r1, r2) if r]
    return recs


def dumps(v, rnd):
    return json.dumps(v, ensure_ascii=rnd.random() < 0.5, separators=rnd.choice([(",", ":"), (", ", ": ")]))


def gen_enum(cases, rnd, k):
    recs = []
    for c in cases:
        for _ in range(k):
            ent = make_entry(c["e"], rnd.randint(1, NALIAS), rnd)
            r = run_body(dumps(ent, rnd), c["sv"], c["dk"], rnd, "enum")
            if r:
                recs.append(r)
    return recs


def random_entry_class(rnd):
    mcs = ["absent", "nonstr", "empty", "ok", "ok", "raise", "typeerr", "badarity", "convfail", "retfault", "unknown", "inst_pub", "inst_nested",
           "inst_priv", "inst_nested_priv"]
    return {"obj": rnd.random() < 0.9, "jr": rnd.random() < 0.7, "idc": rnd.choice(["absent", "null", "empty", "other", "other", "other"]),
            "mc": rnd.choice(mcs), "pc": rnd.choice(["absent", "container", "container", "container", "other"])}


def gen_batch(n, rnd):
    recs = []
    for _ in range(n):
        sv, dk = rnd.choice("12"), rnd.choice(["default", "default", "custom"])
        m = rnd.choice([1, 2, 2, 3, 3, 4])
        ents = [make_entry(random_entry_class(rnd), j + 1, rnd) for j in range(m)]
        r = run_body(dumps(ents, rnd), sv, dk, rnd, "batch")
        if r:
            recs.append(r)
    # a well-formed request between characters that are white space for Python's str.strip() but not for JSON
    okbody = json.dumps({"jsonrpc": "2.0", "id": 1, "method": "ok_1", "params": [1]})
    pads = ["\x0b", "\x0c", "\x1c", "\x1f", "\x85", "\xa0", "\u2028", "\u3000", "\u2003"]
    for pad in pads:
        for text in (pad + okbody, okbody + pad, pad + "[" + okbody + "]" + pad):
            r = run_body(text, rnd.choice("12"), rnd.choice(["default", "custom"]), rnd, "degenerate")
            if r:
                recs.append(r)
    # degenerate bodies
    for text in ["", " ", "null", "false", "0", '""', "[]", "{}", "true", "5", '"abc"', "1.5", "[[]]", "[null]", "[1,2]", "[{}]", "{\"a\":1}",
                 "nul", "{", "[", "}", "﻿{}", "{\"jsonrpc\":\"2.0\"", "\x00", "é", "[,]", "{\"a\":}", "'a'", "tru", "01"]:
        for sv in "12":
            for dk in ("default", "custom"):
                r = run_body(text, sv, dk, rnd, "degenerate")
                if r:
                    recs.append(r)
    return recs


def gen_fuzz(n, rnd):
    recs = []
    while len(recs) < n:
        sv, dk = rnd.choice("12"), rnd.choice(["default", "default", "custom"])
        ents = [make_entry(dict(random_entry_class(rnd), obj=True, mc=rnd.choice(["ok", "raise", "unknown", "inst_pub", "badarity"])),
                           j + 1, rnd) for j in range(rnd.choice([1, 1, 2, 3]))]
        text = dumps(ents[0] if len(ents) == 1 and rnd.random() < 0.7 else ents, rnd)
        mode = rnd.random()
        if mode < 0.4:
            text = text[:rnd.randint(0, len(text))]
        elif mode < 0.8:
            i = rnd.randrange(len(text))
            text = text[:i] + rnd.choice(['"', "{", "}", "[", "]", ",", ":", " ", "x", "0", "\\", "\n", "é", " ", "-", "e", "\t", "_"]) + text[i + 1:]
        else:
            text = "".join(rnd.choice(["{", "}", "[", "]", '"', ":", ",", "a", "1", " ", "é", "\\", " ", "𝄞", "n", "t"]) for _ in range(rnd.randint(1, 30)))
        r = run_body(text, sv, dk, rnd, "fuzz")
        if r:
            recs.append(r)
    return recs


if __name__ == "__main__":
    mode = sys.argv[1]
    if mode == "enum":
        cases, out, seed, k = json.load(open(sys.argv[2])), sys.argv[3], int(sys.argv[4]), int(sys.argv[5])
        recs = gen_enum(cases, random.Random(seed), k)
    elif mode == "jc":
        n, out, seed = int(sys.argv[2]), sys.argv[3], int(sys.argv[4])
        recs = gen_jsonclass(n, random.Random(seed))
    elif mode == "hist":
        n, out, seed = int(sys.argv[2]), sys.argv[3], int(sys.argv[4])
        recs = gen_hist(n, random.Random(seed))
    elif mode == "batch":
        n, out, seed = int(sys.argv[2]), sys.argv[3], int(sys.argv[4])
        recs = gen_batch(n, random.Random(seed))
    elif mode == "il":
        n, out, seed = int(sys.argv[2]), sys.argv[3], int(sys.argv[4])
        recs = gen_interleaved(n, random.Random(seed), 10)
    else:
        n, out, seed = int(sys.argv[2]), sys.argv[3], int(sys.argv[4])
        recs = gen_fuzz(n, random.Random(seed))
    json.dump(recs, open(out, "w"))
    print(len(recs))
