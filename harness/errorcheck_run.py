"""C06 concretiser: reply shapes (from MC_ErrorCheck) -> concrete replies fed to check_for_errors, a ServerProxy over an
in-process loopback transport, and MultiCall result access."""
import json
import signal
import threading
import math
import random
import sys

import jsonrpclib
from jsonrpclib import jsonrpc
from harness.values import enc


class Loop(object):
    """In-process transport: answers every request with a scripted body."""
    def __init__(self, text):
        self.text = text

    def push_headers(self, h):
        pass

    def pop_headers(self, h):
        pass

    def request(self, host, handler, body, verbose=0):
        return self.text

    def close(self):
        pass


def val(rnd, depth=0):
    r = rnd.random()
    if depth > 1 or r < 0.5:
        return rnd.choice([True, 1, -7, 2 ** 40, 0.5, "s", "é", "0"])
    if r < 0.75:
        return [val(rnd, depth + 1) for _ in range(rnd.randint(1, 3))]
    return {rnd.choice(["a", "b", "code"]): val(rnd, depth + 1) for _ in range(rnd.randint(1, 2))}


def concretise(a, rnd):
    reply = {}
    meta = {"codenumeric": False, "codelo": 0, "codehi": 0, "errzero": False}
    ek = a["errk"]
    if ek != "absent":
        if ek == "objcode":
            ck = a["codek"]
            code = {"lo_in": -32700, "hi_in": -32000, "mid_in": rnd.randint(-32699, -32001), "lo_out": -32701, "hi_out": -31999,
                    "other_int": rnd.choice([0, 1, -1, 404, -32768, 10 ** 6, -40000]), "float_in": rnd.choice([-32650.5, -32000.5, -32699.25]),
                    "float_out": rnd.choice([3.5, -31999.5, -32700.5]), "numstr": rnd.choice(["-32601", "5"]),
                    "nonnum": rnd.choice(["abc", "", [1], {"x": 1}]), "null": None, "bool": rnd.choice([True, False])}[ck]
            if isinstance(code, (int, float)):
                meta.update(codenumeric=True, codelo=int(math.floor(code)), codehi=int(math.ceil(code)))
            err = {"code": code}
            if a["msgk"] in ("message", "both"):
                err["message"] = rnd.choice(["Method not found", "", "é fail"])
            if a["msgk"] in ("trace", "both"):
                err["trace"] = rnd.choice(["java.lang.Exception at ...", "t"])
            if a["datak"] == "data":
                err["data"] = rnd.choice([None, 0, False, "", [], {"k": [1, 2]}, "details", 5])
            if rnd.random() < 0.2:
                err["extra"] = 1
        else:
            err = {"null": None, "false": False, "zero": 0, "estr": "", "elist": [], "edict": {},
                   "obj1": rnd.choice([{"reason": "bad"}, {"msg": [1, 2]}, {"x": None}]),
                   "objmulti": rnd.choice([{"reason": "x", "detail": 1}, {"a": 1, "b": 2, "c": 3}]),
                   "strcode": rnd.choice(["error code 5", "code", "barcode"]), "str": rnd.choice(["failure", "x", "é"]),
                   "num": rnd.choice([5, -1, 1.5, 2 ** 40]), "arrcode": rnd.choice([["code", 1], ["code"], [1, "code"]]),
                   "arr": rnd.choice([[1, "x"], [None], [[]]]), "true": True}[ek]
            if ek == "zero" and rnd.random() < 0.3:
                err = 0.0
                meta["errzero"] = True
        reply["error"] = err
    rk = a["resk"]
    if rk != "absent":
        reply["result"] = {"null": None, "false": False, "zero": rnd.choice([0, 0.0]), "estr": "", "elist": [], "edict": {},
                           "value": val(rnd)}[rk]
    if a["env"] == "2":
        reply["jsonrpc"] = "2.0"
    reply["id"] = rnd.choice([1, "abc", 0])
    return reply, meta


def used_before(fn):
    """an earlier, equal use whose outcome - the returned value, the data of the raised error - was then modified in
    place by the caller (harness/perturb.py)"""
    from harness.perturb import scribble
    try:
        scribble(fn())
    except BaseException as e:  # noqa
        scribble(list(e.args))
        if isinstance(e, jsonrpc.AppError):
            try:
                scribble(e.data())
            except BaseException:  # noqa
                pass


def outcome(fn):
    try:
        v = fn()
        return {"kind": "return", "val": enc(v), "args": [], "data": enc(None)}
    except BaseException as e:  # noqa
        t = type(e)
        kind = "ProtocolError" if t is jsonrpc.ProtocolError else "AppError" if t is jsonrpc.AppError else t.__name__
        a0 = e.args[0] if e.args else None
        args = [enc(x) for x in a0] if isinstance(a0, tuple) else [enc(a0)]
        data = enc(None)
        if isinstance(e, jsonrpc.AppError):
            try:
                data = enc(e.data())
            except BaseException as e2:  # noqa
                data = enc("data() raised " + type(e2).__name__)
        return {"kind": kind, "val": enc(None), "args": args, "data": data, "text": str(e)[:120]}


def run_case(c, rnd):
    a = c["a"]
    reply, meta = concretise(a, rnd)
    text = json.dumps(reply)
    ok = {"jsonrpc": "2.0", "id": 2, "result": "fine"}
    cfg = jsonrpclib.config.Config(use_jsonclass=rnd.random() < 0.5)
    rec = {"a": a, "expect": c["expect"], "reply": enc(json.loads(text)), "text": text}
    rec.update(meta)
    if rnd.random() < 0.06:
        # another thread checks another reply between two lines of this check (harness/interleave.py): same outcome
        from harness import interleave
        other = json.loads(rnd.choice([json.dumps(ok), '{"jsonrpc": "2.0", "id": 3, "error": {"code": -32601, "message": "nope"}}',
                                       '{"id": 4, "result": null, "error": {"code": 7, "message": "app", "data": [1]}}']))
        fa = lambda: jsonrpc.check_for_errors(json.loads(text))
        n = interleave.points(fa)
        res = None
        for k in interleave.sample_points(n, 8, rnd):
            holder = {}

            def a():
                holder["o"] = outcome(fa)
            interleave.run(a, lambda: outcome(lambda: jsonrpc.check_for_errors(other)), k)
            if res is None or holder["o"]["kind"] != res["kind"]:
                res = holder["o"] if res is None else dict(holder["o"], kind="unstable:" + holder["o"]["kind"])
        rec["cfe"] = res if res is not None else outcome(fa)
    else:
        rec["cfe"] = outcome(lambda: jsonrpc.check_for_errors(json.loads(text)))
    # (half of the cases: the proxy has been used before, for an equal exchange whose outcome the caller then modified)
    reuse = rnd.random() < 0.5
    rec["reused"] = reuse
    px = jsonrpc.ServerProxy("http://loop/", transport=Loop(text), config=cfg)
    if reuse:
        used_before(lambda: px.ping(1))
    rec["proxy"] = outcome(lambda: px.ping(1))
    # a notification call that the peer answers all the same: an error in that reply is not swallowed
    pn = jsonrpc.ServerProxy("http://loop/", transport=Loop(text), config=cfg)
    if reuse:
        used_before(lambda: pn._notify.ping(1))
    rec["notify"] = outcome(lambda: pn._notify.ping(1))

    def mc(access):
        tr = Loop("[%s, %s]" % (text, json.dumps(ok)))
        p = jsonrpc.ServerProxy("http://loop/", transport=tr, config=cfg)
        m = jsonrpc.MultiCall(p)
        if reuse:
            m.ping(1)
            m.pong()
            used_before(lambda: [x for x in m()])
        m.ping(1)
        m.pong()
        res = m()
        if reuse:
            # the same MultiCall object is filled and executed again before the results above are read: they stay
            # those of their own batch
            tr.text = "[%s, %s]" % (json.dumps({"jsonrpc": "2.0", "id": 7, "result": "later"}), json.dumps(ok))
            m.ping(2)
            m.pong()
            m()
        return access(res)
    rec["mcindex"] = outcome(lambda: mc(lambda res: res[0]))
    rec["mciter"] = outcome(lambda: mc(lambda res: next(iter(res))))

    # histories of accesses to ONE result object: every access must behave like the first
    def again(first, second):
        def access(res):
            try:
                first(res)
            except BaseException:  # noqa
                pass
            return second(res)
        return access
    idx, it = (lambda res: res[0]), (lambda res: next(iter(res)))
    rec["mcindex2"] = outcome(lambda: mc(again(idx, idx)))
    rec["mciter2"] = outcome(lambda: mc(again(it, it)))
    rec["mcidxiter"] = outcome(lambda: mc(again(it, idx)))
    rec["mclen"] = outcome(lambda: mc(lambda res: len(res)))
    return rec


def client_histories(rnd, n):
    """Histories on ONE proxy over a real transport: an exchange that goes wrong in some way, then a healthy exchange
    whose reply reports a JSON-RPC error: that error must surface as ProtocolError / AppError with its code."""
    from harness import netpeer
    peer = netpeer.ScriptedPeer()
    recs = []
    faults = ["H", "HC", "CB", "RS", "E4L", "E5L", "E5N", "TR", "TRC", "E0", "NJ", "S202", "S203", "E5BIG"]
    try:
        for k in range(n):
            fault = faults[k % len(faults)]
            item = rnd.choice(["J601", "J42", "JRAW"])
            ver = rnd.choice([1.0, 2.0])
            p = jsonrpc.ServerProxy(peer.url(), version=ver)
            interrupted = fault == "H" and (k // len(faults)) % 2 == 1 and threading.current_thread() is threading.main_thread()
            if interrupted:
                # the first call is given up by its caller while it waits for the answer: a signal handler raises
                # KeyboardInterrupt (a BaseException) inside the exchange, the application catches it and goes on
                fault = "KI"
                with peer.lock:
                    peer.script[:] = ["SLOW"]

                def on_alarm(signum, frame):
                    raise KeyboardInterrupt()
                prev = signal.signal(signal.SIGALRM, on_alarm)
                signal.setitimer(signal.ITIMER_REAL, 0.15)
                try:
                    p.echo("tok-%d" % k)
                except BaseException:  # noqa
                    pass
                finally:
                    signal.setitimer(signal.ITIMER_REAL, 0)
                    signal.signal(signal.SIGALRM, prev)
            else:
                with peer.lock:
                    peer.script[:] = [fault]
                try:
                    p.echo("tok-%d" % k)
                except BaseException:  # noqa
                    pass
            with peer.lock:
                peer.script[:] = [item]
            second = outcome(lambda: p.echo("tok2-%d" % k))
            raw = ["cafe\u0301", "\u212b", {"k\u0308": "\u1e9b\u0323"}]
            recs.append({"fault": fault, "item": item, "want": "value" if item == "JRAW" else "protocol" if item == "J601" else "app",
                         "code": enc(-32601 if item == "J601" else 42), "expected": enc(raw), "second": second})
            try:
                p("close")()
            except BaseException:  # noqa
                pass
    finally:
        peer.down()
    return recs


def concurrent_proxies(rnd, n):
    """Two INDEPENDENT proxies (own transport, own connection, own server) used by two threads at the same time: the reply
    to A - an error, its 1024-byte body sent at once, the end of the stream held back - is being parsed while B makes a
    complete successful call.  A's call must still raise A's error."""
    import socket
    import threading
    recs = []
    for k in range(n):
        item = rnd.choice(["J601", "J42"])
        err = {"code": -32601, "message": "Method not found"} if item == "J601" else {"code": 42, "message": "app", "data": [1]}
        a_sent, b_done = threading.Event(), threading.Event()
        lsA, lsB = socket.socket(), socket.socket()
        for ls in (lsA, lsB):
            ls.bind(("127.0.0.1", 0))
            ls.listen(2)
            ls.settimeout(5)

        def read_req(c):
            buf = b""
            while b"\r\n\r\n" not in buf:
                buf += c.recv(65536)
            head, body = buf.split(b"\r\n\r\n", 1)
            ln = [int(l.split(b":")[1]) for l in head.split(b"\r\n") if l.lower().startswith(b"content-length")][0]
            while len(body) < ln:
                body += c.recv(65536)
            return json.loads(body.decode())

        def serve_a():
            try:
                c, _ = lsA.accept()
                c.settimeout(5)
                rid = read_req(c)["id"]
                d = {"jsonrpc": "2.0", "id": rid, "error": dict(err)}
                pad = 1024 - len(json.dumps(d).encode())
                d["error"]["message"] += "." * pad
                c.sendall(b"HTTP/1.0 200 OK\r\nContent-Type: application/json\r\n\r\n" + json.dumps(d).encode())
                a_sent.set()
                b_done.wait(3)
                c.close()
            except OSError:
                a_sent.set()

        def serve_b():
            try:
                c, _ = lsB.accept()
                c.settimeout(5)
                rid = read_req(c)["id"]
                out = json.dumps({"jsonrpc": "2.0", "id": rid, "result": "result-for-B"}).encode()
                c.sendall(b"HTTP/1.0 200 OK\r\nContent-Type: application/json\r\nContent-Length: " + str(len(out)).encode() + b"\r\n\r\n" + out)
                c.close()
            except OSError:
                pass
        ta, tb = threading.Thread(target=serve_a, daemon=True), threading.Thread(target=serve_b, daemon=True)
        ta.start()
        tb.start()
        res = {}
        pa = jsonrpc.ServerProxy("http://127.0.0.1:%d/" % lsA.getsockname()[1])
        pb = jsonrpc.ServerProxy("http://127.0.0.1:%d/" % lsB.getsockname()[1])
        ca = threading.Thread(target=lambda: res.update(a=outcome(lambda: pa.echo("a"))), daemon=True)
        ca.start()
        a_sent.wait(3)
        import time
        time.sleep(0.08)                 # A's client has read and fed the body, and waits for the end of the stream
        res["b"] = outcome(lambda: pb.echo("b"))
        b_done.set()
        ca.join(40)                      # (bounded; a loaded machine is not a verdict)
        for ls in (lsA, lsB):
            ls.close()
        recs.append({"fault": "concurrent-proxy", "item": item, "want": "protocol" if item == "J601" else "app", "code": enc(err["code"]), "expected": enc(None),
                     "second": res.get("a", {"kind": "no-outcome", "args": [], "val": enc(None), "data": enc(None)})})
    return recs


if __name__ == "__main__":
    import socket as _socket
    _socket.setdefaulttimeout(10)
    if sys.argv[1] == "histories":
        out, seed, n = sys.argv[2], int(sys.argv[3]), int(sys.argv[4])
        rnd = random.Random(seed)
        json.dump(client_histories(rnd, n) + concurrent_proxies(rnd, max(4, n // 14)), open(out, "w"))
        print(n)
        sys.exit(0)
    cases = json.load(open(sys.argv[1]))
    out, seed, k = sys.argv[2], int(sys.argv[3]), int(sys.argv[4])
    rnd = random.Random(seed)
    recs = [run_case(c, rnd) for c in cases for _ in range(k)]
    json.dump(recs, open(out, "w"))
    print(len(recs))
