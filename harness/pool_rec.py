"""Runs the real jsonrpclib.threadpool.ThreadPool under the controlled scheduler and records traces
(for ThreadPoolTrace.tla = conformance, and PoolObs.tla = property predicates).

Modes (argv[1]):
  random  <n> <seed> <out.json> [maxmax] [ntasks] [nclients]   random programs x random schedules
  replay  <behaviours.json> <out.json>                         TLC behaviours (MC_TPSim) replayed step by step
"""
import json
import logging
import os
import random
import sys
import time

from harness import detsched

logging.disable(logging.CRITICAL)
REPO = os.environ.get("VERIF_REPO", "/repo")
NW = 7          # worker ids of a recorded execution (threads past their last bookkeeping step linger: more than max_threads can exist)
STEP_CAP = 1500

STUTTER = {"thread_join", "ret", "cond_wait", "qget_nowait_empty", "fut_is_set", "fut_wait",
           "obs_done", "obs_result", "other_unlock"}


class Hooks(object):
    pass


class Unprintable(KeyError):
    """An exception that cannot be turned into text (its __str__ fails): raised by a task like any other."""
    def __str__(self):
        raise TypeError("this exception has no text form")

    __repr__ = __str__


class PoolRun(object):
    """One execution of the real pool: clients (thr 101, 102), workers (thr 1..NW), observer (thr 200)."""

    def __init__(self, mx, mn, ntasks, gated, raising, nclients, qcap=0):
        self.mx, self.mn, self.nt, self.gated, self.raising, self.nc = mx, mn, ntasks, set(gated), set(raising), nclients
        self.qcap = qcap
        S = self.S = detsched.Sched()
        H = self.H = Hooks()
        self.alive = set()
        self.widx = {}
        self.ts = ["new"] * ntasks
        self.execs = [0] * ntasks
        self.released = set()
        self.cur = {}            # worker idx -> task id being executed
        self.holding = {}        # worker idx -> task dequeued and not yet finished
        self.futures = {}
        self.objs = {t: object() for t in range(1, ntasks + 1)}
        self.excs = {t: (Unprintable if t % 2 else KeyError)("task-%d" % t) for t in range(1, ntasks + 1)}
        self.phase = "stopped"
        self.enq_order = []
        self.start_order = []
        self.cop = {}            # client -> current op (list)
        self.cjoin = {}          # client -> number of join-related reads in the current call
        self.claimed = set()
        self.pool = None
        H.srcfile = None
        H.ev, H.alloc, H.dead, H.on_put, H.on_get, H.on_drop = self.ev, self.alloc, self.dead, self.on_put, self.on_get, self.on_drop
        th, qm = detsched.make_shims(S, H)
        self.tp = detsched.load_module_with_shims("jsonrpclib.threadpool", th, qm)
        H.srcfile = self.tp.__file__
        detsched.trace_fields(S, self.tp.ThreadPool, detsched.POOL_COUNTERS, "_ThreadPool__lock")
        self.pool = self.tp.ThreadPool(mx, mn, queue_size=qcap, logname="P")
        self.sentinel = self.pool._done_event
        self.plock = getattr(self.pool, "_ThreadPool__lock", None)
        S.snap = self.snap

    # ---- hooks from the shims
    def alloc(self, shim):
        free = [i for i in range(1, NW + 1) if i not in self.alive]
        i = free[0] if free else NW + 1 + len(self.alive)
        self.alive.add(i)
        self.widx[shim] = i
        return i

    def dead(self, i):
        self.alive.discard(i)

    def tid(self, item):
        return item[1][0]

    def on_put(self, item):
        if item is not self.sentinel:
            t = self.tid(item)
            self.ts[t - 1] = "queued"
            self.enq_order.append(t)

    def on_get(self, item):
        me = self.S.me()
        if item is not self.sentinel and me is not None:
            self.holding[me.idx] = self.tid(item)

    def on_drop(self, item):
        if item is not self.sentinel:
            self.ts[self.tid(item) - 1] = "dropped"

    def ev(self, kind, obj, fn):
        S, pool = self.S, self.pool
        me = S.me()
        if me is None or pool is None or kind == "lock":
            return
        is_client = 100 < me.idx < 200
        k = kind
        if me.idx == 200:                               # observer: its shim operations are never spec steps
            k = {"is_set": "fut_is_set", "ev_wait0": "fut_wait", "ev_wait": "fut_wait"}.get(kind, "other_unlock")
        elif kind == "unlock":
            if obj is not self.plock:
                k = "other_unlock"
        elif kind in ("is_set", "ev_set", "ev_clear", "ev_wait", "ev_wait0"):
            stopev = obj is pool._done_event
            if kind == "is_set":
                k = ("is_set_cs" if fn == "__start_thread" else "is_set") if stopev else "fut_is_set"
            elif kind == "ev_set":
                k = "ev_set_stop" if stopev else "ev_set_future"
                if not stopev:
                    t = self.cur.get(me.idx)
                    if t is not None and self.ts[t - 1] == "finished":
                        self.ts[t - 1] = "done"
            elif kind == "ev_clear":
                k = "ev_clear"
            else:
                k = "fut_wait"
        elif kind == "qsize":
            k = "qsize" if fn == "start" else "qsize_cs"
        elif kind in ("qempty", "unfinished_read"):
            n = self.cjoin.get(me.idx, 0)
            self.cjoin[me.idx] = n + 1
            k = "join_test" if n == 0 else "join_read"
        S.emit(k, fn=fn)

    # ---- projection (after the change, baton still held)
    def snap(self):
        p = self.pool
        g = lambda n, d=-1: p.__dict__.get("_traced__ThreadPool__" + n, d)       # (the traced slot: reading it is not a scheduling point)
        running = [i + 1 for i, s in enumerate(self.ts) if s == "running"]
        return {"stop": p._done_event.flag,
                "q": [0 if it is self.sentinel else self.tid(it) for it in p._queue.queue],
                "unfinished": p._queue._unfinished,
                "nbT": g("nb_threads"), "nbA": g("nb_active_threads"), "nbP": g("nb_pending_task"),
                "tlist": sorted(self.widx.get(t, 99) for t in p._threads),
                "alive": sorted(self.alive), "ts": list(self.ts), "execs": list(self.execs),
                "phase": self.phase, "running": running}

    # ---- task body
    def task(self, t):
        S = self.S
        me = S.me()
        S.yield_(("enter", t))
        self.cur[me.idx] = t
        self.ts[t - 1] = "running"
        self.execs[t - 1] += 1
        self.start_order.append(t)
        S.emit("task_begin", t=t)
        S.yield_(("body", t), guard=lambda: t not in self.gated or t in self.released)
        self.ts[t - 1] = "finished"
        self.holding.pop(me.idx, None)
        S.emit("task_end", t=t)
        if t in self.raising:
            raise self.excs[t]
        return self.objs[t]

    # ---- client operations
    def do_op(self, c, op):
        S, pool = self.S, self.pool
        idx = 100 + c
        S.yield_(("fetch",))
        self.cop[c] = op
        self.cjoin[idx] = 0
        snapset = sorted(i + 1 for i, s in enumerate(self.ts) if s != "new")
        clean = self.phase == "running"
        if op[0] == "start" and self.phase == "stopped":
            self.phase = "starting"
        S.emit("call", op=op, snap=snapset)
        res = ""
        if op[0] == "start":
            pool.start()
            self.phase = "running"
        elif op[0] == "stop":
            was = self.phase
            if was == "running":
                self.phase = "stopping"      # conservative: from the call on (the spec: from the flag being set)
            pool.stop()
            if was == "running":
                self.phase = "stopped"
        elif op[0] == "join":
            res = "true" if pool.join() else "false"
        elif op[0] == "joint":
            res = "true" if pool.join(5) else "false"
        elif op[0] == "joint0":
            res = "true" if pool.join(0) else "false"
        elif op[0] == "clear":
            pool.clear()
        elif op[0] == "enq":
            try:
                self.futures[op[1]] = pool.enqueue(self.task, op[1])
            except Exception as e:  # noqa
                if type(e).__name__ != "Full":
                    raise
                res = "full"          # bounded queue: not accepted
        elif op[0] == "release":
            S.yield_(("release_gate",))
            self.released.add(op[1])
            S.emit("release", t=op[1])
        S.yield_(("return",))
        S.emit("ret", op=op, res=res, snap=snapset, clean=clean and self.phase == "running")
        self.cop[c] = None

    def avail_ops(self, c):
        ops = [["join"], ["joint"], ["joint0"]]
        if c == 1:
            ops += [["start"], ["stop"], ["clear"]]
        ops += [["release", t] for t in sorted(self.gated) if t not in self.released]
        ops += [["enq", t] for t in range(1, getattr(self, "base_nt", self.nt) + 1) if self.ts[t - 1] == "new" and t not in self.claimed]
        return ops

    def observe(self, rnd, n):
        S = self.S
        for _ in range(n):
            S.yield_(("obs",))
            if not self.futures:
                continue
            t = rnd.choice(sorted(self.futures))
            f = self.futures[t]
            d = f.done()
            S.emit("obs_done", t=t, res="true" if d else "false")
            try:
                v = f.result(0)
                out = "val" if v is self.objs[t] else "foreign"
            except OSError:
                out = "timeout"
            except BaseException as e:   # noqa
                out = "exc" if e is self.excs[t] else "foreign"
            S.emit("obs_result", t=t, res=out)

    def header(self, **kw):
        h = {"cfg": {"maxT": self.mx, "minT": self.mn, "nc": self.nc, "nt": self.nt,
                     "gated": sorted(self.gated), "raising": sorted(self.raising), "qcap": self.qcap}}
        h.update(kw)
        return h


def normalise(events):
    """Uniform shape for TLC (every record has the same fields)."""
    out = []
    for e in events:
        out.append({"thr": e["thr"], "k": e["k"], "fn": e.get("fn", ""), "op": e.get("op", []), "t": e.get("t", 0),
                    "res": e.get("res", ""), "snap": e.get("snap", []), "clean": bool(e.get("clean", False)),
                    "st": e["st"]})
    return out


def serving_lower_bound(events, end):
    """For MaxServing: worker w certainly serves at event i if it is alive and later attempts a queue read,
    or holds a dequeued task.  Exact on complete traces (total order), a lower bound on truncated ones."""
    n = len(events)
    will = {}
    res = [None] * n
    for i in range(n - 1, -1, -1):
        e = events[i]
        res[i] = sorted(w for w in e["st"]["alive"] if will.get(w))
        if e["k"] in ("qget", "qget_empty") and e["thr"] < 100:
            will[e["thr"]] = True
        if e["k"] == "thread_start":
            # the thread started here did not exist before: reset for its id
            born = [w for w in e["st"]["alive"] if i == 0 or w not in events[i - 1]["st"]["alive"]]
            for w in born:
                will[w] = False
    for i in range(n):
        events[i]["st"]["srv"] = res[i]


# --------------------------------------------------------------------------- random mode
def random_trace(seed, maxmax=2, ntasks=3, nclients=1, observer=True, extend=0, ext_seed=0):
    """extend > 0: the same execution (same seed => same program and schedule prefix), after which client 1 goes on
    with `extend` further operations chosen by a second generator (model-guided search after a DRIFT, DESIGN 4.6)."""
    rnd = random.Random(seed)
    rnd2 = random.Random(ext_seed * 7919 + seed)
    mx = rnd.randint(1, maxmax)
    mn = rnd.randint(0, mx)
    gated = [t for t in range(1, ntasks + 1) if rnd.random() < 0.5]
    raising = [t for t in range(1, ntasks + 1) if rnd.random() < 0.25]
    qcap = rnd.choice([0, 0, 0, 1, 2])
    R = PoolRun(mx, mn, ntasks + 3, gated, raising, nclients, qcap)
    R.base_nt = ntasks
    S = R.S
    nops = {c: (rnd.randint(3, 9) if c == 1 else rnd.randint(1, 3)) for c in range(1, nclients + 1)}

    def client(c):
        def run():
            for _ in range(nops[c]):
                ops = R.avail_ops(c)
                w = [3 if (o[0] == "start" and R.phase == "stopped") else 2 if o[0] in ("enq", "release") else 1 for o in ops]
                op = rnd.choices(ops, w)[0]
                if op[0] == "enq":
                    R.claimed.add(op[1])
                R.do_op(c, op)
            if c == 1 and extend:
                R.base_nt = R.nt
                for _ in range(extend):
                    ops = R.avail_ops(c)
                    stopped = R.phase == "stopped"
                    w = [(2 if rnd2.random() < 0.5 else 5) if (o[0] == "start" and stopped) else (6 if stopped else 3) if o[0] == "enq"
                         else 2 if o[0] == "release" else 1 for o in ops]
                    op = rnd2.choices(ops, w)[0]
                    if op[0] == "enq":
                        R.claimed.add(op[1])
                    R.do_op(c, op)
        return run
    for c in range(1, nclients + 1):
        S.spawn(client(c), "client%d" % c, 100 + c)
    if observer:
        S.spawn(lambda: R.observe(rnd, rnd.randint(0, 6)), "observer", 200)
    p_timeout = rnd.choice([0.0, 0.05, 0.3])
    sticky = rnd.choice([0.0, 0.0, 0.5, 0.8])      # probability of letting the thread that just ran go on (longer uninterrupted stretches)
    last = None
    end = "quiescent"
    idle = 0                      # time-outs fired since a client or a task body last made a step
    while True:
        live = S.live()
        if not live:
            end = "done"
            break
        en = [t for t in live if S.is_enabled(t)]
        tm = [t for t in live if not S.is_enabled(t) and t.can_timeout]
        may_tmo = tm and idle < 2 * len(tm) + 2
        if en and not (may_tmo and rnd.random() < p_timeout):
            t, tmo = (last if (last in en and rnd.random() < sticky) else rnd.choice(en)), False
        elif may_tmo:
            t, tmo = rnd.choice(tm), True
            idle += 1
        elif en:
            t, tmo = rnd.choice(en), False
        elif any(x.idx >= 100 for x in tm):
            # nothing can move any more: a client's timed wait (join(timeout)) expires before the run is called quiescent
            t, tmo = [x for x in tm if x.idx >= 100][0], True
        else:
            end = "quiescent"
            break
        if not tmo and (t.idx >= 100 or t.op[0] in ("enter", "body")):
            idle = 0
        if not tmo:
            last = t
        if S.steps > STEP_CAP:
            end = "truncated"
            break
        S.step(t, tmo)
    blocked = [{"thr": t.idx, "op": str(t.op[0])} for t in S.live() if t.idx >= 100 and t.idx < 200]
    ev = normalise(S.events)
    serving_lower_bound(ev, end)
    h = R.header(seed=seed, end=end, ev=ev, blocked=[b["thr"] for b in blocked],
                 blockedop=[(R.cop.get(b["thr"] - 100) or ["none"])[0] for b in blocked],
                 enq=R.enq_order, started=R.start_order, kind="random" if not extend else "extended", nsteps=S.steps,
                 ext=[extend, ext_seed], params=[maxmax, ntasks, nclients])
    S.kill_all()
    return h


# --------------------------------------------------------------------------- systematic mode
PROGRAMS = [   # (client 1, client 2) - small programs around start / stop / restart with a second enqueuing / joining client
    ([["start"], ["stop"], ["enq", 2]], [["enq", 1]]),
    ([["start"], ["stop"], ["enq", 2], ["start"]], [["enq", 1]]),
    ([["start"], ["enq", 2], ["stop"], ["enq", 3]], [["enq", 1]]),
    ([["start"], ["enq", 2], ["stop"], ["start"], ["enq", 3]], [["enq", 1], ["join"]]),
    ([["enq", 2], ["start"], ["stop"]], [["enq", 1]]),
    ([["start"], ["enq", 2], ["join"], ["stop"]], [["enq", 1], ["joint0"]]),
    ([["start"], ["enq", 2], ["release", 2], ["stop"], ["start"], ["stop"]], [["enq", 1]]),
    ([["start"], ["enq", 2], ["clear"], ["enq", 3], ["stop"]], [["enq", 1]]),
    ([["start"], ["stop"], ["start"], ["enq", 2]], [["enq", 1], ["enq", 3]]),
    ([["start"], ["enq", 1], ["enq", 2], ["enq", 3], ["release", 1], ["join"]], []),
    # mutually dependent work: tasks 1 and 2 gate-blocked, a third one queued, then one gate opens
    ([["start"], ["enq", 1], ["enq", 2], ["enq", 3], ["release", 1], ["joint"]], [], [1, 2]),
    ([["start"], ["enq", 1], ["enq", 2], ["enq", 3], ["release", 2], ["release", 1], ["joint"]], [], [1, 2]),
    # a second client enqueues while the first one is inside start(): the counters must come out right whatever the
    # interleaving; later the idle worker retires and one more task arrives
    ([["start"], ["joint"], ["enq", 3], ["joint"]], [["enq", 1], ["enq", 2]], [1, 2, 3], ((3, 0), (2, 0), (3, 1))),
    # a quick task ends while the next one is being submitted; then the idle worker retires and more work arrives
    ([["start"], ["enq", 4], ["enq", 1], ["joint"], ["enq", 2], ["joint"]], [], [1, 2], ((2, 0), (3, 2), (2, 1), (3, 0))),
    # a single-worker pool started by one client while another submits two tasks: they start in submission order
    ([["start"], ["joint"]], [["enq", 1], ["enq", 2], ["joint"]], [], ((1, 1), (1, 0))),
    ([["enq", 3], ["start"], ["joint"]], [["enq", 1], ["enq", 2], ["joint"]], [], ((1, 0), (1, 1))),
    ([["start"], ["enq", 4], ["enq", 3], ["enq", 1], ["joint"], ["enq", 2], ["joint"]], [], [1, 2], ((2, 0), (3, 1))),
    ([["enq", 1], ["start"], ["joint"], ["enq", 3], ["joint"]], [["enq", 2]], [1, 2, 3], ((3, 0), (2, 0))),
    # a task that ends while stop() is waiting for its worker (the gate is opened by the other client), then a restart
    ([["start"], ["enq", 1], ["stop"], ["start"], ["enq", 2], ["joint"]], [["release", 1]]),
    ([["start"], ["enq", 1], ["enq", 2], ["stop"], ["start"], ["enq", 3], ["stop"]], [["release", 1], ["release", 2]]),
    ([["start"], ["enq", 1], ["clear"], ["enq", 2], ["joint"]], [["release", 1]]),
    ([["enq", 1], ["enq", 2], ["start"], ["stop"], ["enq", 3], ["start"], ["joint"]], [["release", 1], ["release", 2]]),
    ([["enq", 1], ["enq", 2], ["enq", 3], ["start"], ["release", 1], ["release", 2], ["joint"], ["stop"]], []),
    # one worker busy with a gate-blocked task, the other one idle: its time-out may expire at any step of the next
    # submission (and of the restart before it)
    ([["start"], ["enq", 2], ["stop"], ["start"], ["enq", 3]], [["enq", 1], ["join"]], [1, 3], ((2, 1), (2, 0))),
]


def planned_trace(mx, mn, gated, progs, plan, policy, qcap=0):
    """One execution of fixed client programs under the default policy (keep running the current thread while it is
    enabled, else the enabled thread with the lowest / highest id) with the preemptions of `plan` (step -> thread id,
    negative = fire that thread's time-out)."""
    nc = 2 if progs[1] else 1
    R = PoolRun(mx, mn, 4, gated, [], nc, qcap)
    S = R.S

    def client(c):
        def run():
            for op in progs[c - 1]:
                if op[0] == "enq":
                    R.claimed.add(op[1])
                R.do_op(c, op)
        return run
    for c in range(1, nc + 1):
        S.spawn(client(c), "client%d" % c, 100 + c)
    cur, step, choices, end = None, 0, [], "quiescent"
    idle_fired = 0            # idle time-outs of workers fired since a client last moved (time passes when nothing can run)
    while True:
        live = S.live()
        en = [t for t in live if S.is_enabled(t)]
        tm = [t for t in live if not S.is_enabled(t) and t.can_timeout]
        if not live:
            end = "done"
            break
        want = plan.get(step)
        t, tmo = None, False
        if want is not None and want < 0:
            t = next((x for x in tm if x.idx == -want), None)
            tmo = t is not None
        elif want is not None:
            t = next((x for x in en if x.idx == want), None)
        if t is None:
            if not en:
                tmc = [x for x in tm if x.idx >= 100]        # a client's join(timeout) expires at quiescence
                tmw = [x for x in tm if x.idx < 100]
                if tmc and tmw and idle_fired < len(tmw):
                    # a client sits in a timed wait while workers idle: the workers' idle time-outs expire first (once each)
                    t, tmo = tmw[0], True
                    idle_fired += 1
                elif tmc:
                    t, tmo = tmc[0], True
                else:
                    end = "quiescent"
                    break
            else:
                pol = policy if step <= plan.get(-1, 10 ** 9) else ("high" if policy == "low" else "low")    # (plan[-1]: flip the baseline after that step)
                t = cur if cur in en else sorted(en, key=lambda x: x.idx if pol == "low" else -x.idx)[0]
        if not tmo and t.idx >= 100:
            idle_fired = 0
        if not tmo and t.idx >= 100 and t.op[0] in ("is_set", "fld_read", "fld_write", "fld_write_locked", "set", "clear", "qput", "acquire", "release", "qsize", "thread_start", "fetch", "return", "qempty", "unfinished_read", "qget_nowait", "thread_join"):
            choices.append((step, t.idx, [x.idx for x in en if x is not t] + [-x.idx for x in tm if x.idx < 100], t.op[0]))
        elif not tmo and t.idx < 100 and t.op[0] in ("acquire", "fld_read", "fld_write"):
            # a worker about to enter a critical section (e.g. between its dequeue and counting itself active)
            choices.append((step, t.idx, [x.idx for x in en if x is not t], t.op[0]))
        if not tmo:
            cur = t
        S.step(t, tmo)
        step += 1
        if S.steps > STEP_CAP:
            end = "truncated"
            break
    blocked = [t.idx for t in S.live() if 100 <= t.idx < 200]
    ev = normalise(S.events)
    serving_lower_bound(ev, end)
    h = R.header(seed=0, end=end, ev=ev, blocked=blocked, blockedop=[(R.cop.get(b - 100) or ["none"])[0] for b in blocked],
                 enq=R.enq_order, started=R.start_order, kind="planned", nsteps=S.steps,
                 plan=sorted((k, v) for k, v in plan.items()), policy=policy, progs=progs, params=[mx, 4, nc])
    S.kill_all()
    return h, choices


def explore(part, nparts, maxruns, rnd):
    """All schedules with at most one preemption (at the clients' synchronisation operations) of the catalogue programs."""
    out, seen = [], set()
    combos = []
    for pi, entry in enumerate(PROGRAMS):
        for (mx, mn) in (entry[3] if len(entry) > 3 else ((1, 0), (2, 0), (2, 1), (1, 1))):
            for policy in ("low", "high"):
                combos.append((entry, mx, mn, policy))
    variants = []
    for (entry, mx, mn, policy) in combos[part::nparts]:
        released = sorted(set(op[1] for pr in entry[:2] for op in pr if op[0] == "release"))
        if len(entry) > 2:
            variants.append((entry, mx, mn, policy, sorted(entry[2])))
        else:
            # without further gate-blocked tasks (deterministic: what is found here is found at every seed), and with some
            variants.append((entry, mx, mn, policy, released))
            more = sorted(set(released) | set(t for t in (1, 2, 3) if rnd.random() < 0.35))
            if more != released:
                variants.append((entry, mx, mn, policy, more))
    for (entry, mx, mn, policy, gated) in variants:
        progs = entry[:2]
        base, choices = planned_trace(mx, mn, gated, progs, {}, policy)
        out.append(base)
        plans_c, plans_w = [], []
        plans_f = []
        for (st, curidx, others, opk) in choices:
            for o in others:
                if opk.startswith("fld_"):
                    if o > 0:
                        plans_f.append({st: o})      # switches at counter accesses: explored by the directed passes below
                else:
                    (plans_c if curidx >= 100 else plans_w).append({st: o})
        # (a worker's idle time-out that expires while a client is inside a call - time passes at any moment - is never
        # sampled away either: what these switches find is found at every seed)
        tmo_c = [pl for pl in plans_c if min(pl.values()) < 0]
        rnd.shuffle(plans_c)
        rnd.shuffle(plans_w)
        # (switches at UNPROTECTED counter accesses come first and are never sampled away: correct code has none
        # outside start(), code that lost a lock has a few)
        unprot = [pl for pl in plans_f if any(c[0] in pl and c[3] in ("fld_read", "fld_write") for c in choices)]
        for plan in unprot + tmo_c + plans_c[:maxruns] + plans_w[:maxruns]:
            tr, _c = planned_trace(mx, mn, gated, progs, plan, policy)
            key = "|".join("%s:%s" % (e["thr"], e["k"]) for e in tr["ev"])
            if key not in seen:
                seen.add(key)
                out.append(tr)
        # field races: a second preemption, again at an access to a counter (a read-modify-write that is not protected
        # needs one switch away between its read and its write, and the other thread may have to be caught in the
        # middle of its own update first) - explored exhaustively, it is a small set
        for plan in plans_f:
            tr, ch2 = planned_trace(mx, mn, gated, progs, plan, policy)
            st1 = max(plan)
            wide = plan in unprot       # after a switch at an UNPROTECTED access (buggy code only): any second switch,
            variants = [dict(plan)]     # also with the baseline policy flipped from there on (who runs first among the rest)
            if wide:
                pf = dict(plan)
                pf[-1] = st1
                trf, chf = planned_trace(mx, mn, gated, progs, pf, policy)
                key = "|".join("%s:%s" % (e["thr"], e["k"]) for e in trf["ev"])
                if key not in seen:
                    seen.add(key)
                    out.append(trf)
                for (st2, cur2, oth2, opk2) in chf:
                    if st2 <= st1:
                        continue
                    for o2 in oth2:
                        p2 = dict(pf)
                        p2[st2] = o2
                        tr2, _c = planned_trace(mx, mn, gated, progs, p2, policy)
                        key = "|".join("%s:%s" % (e["thr"], e["k"]) for e in tr2["ev"])
                        if key not in seen:
                            seen.add(key)
                            out.append(tr2)
            for (st2, cur2, oth2, opk2) in ch2:
                if st2 <= st1 or not (wide or opk2.startswith("fld_")):
                    continue
                for o2 in oth2:
                    if o2 <= 0 and not wide:
                        continue
                    p2 = dict(plan)
                    p2[st2] = o2
                    tr2, _c = planned_trace(mx, mn, gated, progs, p2, policy)
                    key = "|".join("%s:%s" % (e["thr"], e["k"]) for e in tr2["ev"])
                    if key not in seen:
                        seen.add(key)
                        out.append(tr2)
    return out


# --------------------------------------------------------------------------- replay mode
# event kinds that end the spec step taken from a given pc (DESIGN 4.5); None = silent spec step
CLIENT_ENDS = {
    "fetch": {"call"}, "r1": {"release"}, "s1": {"is_set"}, "s2": {"ev_clear"}, "s3": {"qsize"}, "s4": None, "s4w": None,
    "s5": {"unlock", "is_set_cs"}, "s5a": {"unlock", "thread_start"}, "s5b": {"unlock"},
    "s6": {"unlock", "is_set_cs", "ret"}, "s6a": {"unlock", "thread_start"}, "s6b": {"unlock"},
    "e1": {"qput"}, "e1w": {"qput", "qput_full"}, "e1x": {"unlock"}, "e2": {"unlock", "is_set_cs"}, "e2a": {"unlock", "thread_start"}, "e3": {"unlock"},
    "j1": {"join_test"}, "j2": {"qjoin", "join_read"},
    "p1": {"is_set"}, "p2": {"ev_set_stop"}, "p3": None, "p3b": {"qput", "unlock", "qput_full"}, "p4": None, "p5": None, "p6": None,
    "p6b": {"qget_nowait", "unlock"}, "p6c": {"task_done"}, "p7": {"is_set"}, "p8": {"join_test", "qjoin"},
}
WORKER_ENDS = {
    "check": {"is_set"}, "get": {"qget", "qget_empty"}, "sdone": {"task_done"}, "active": {"unlock", "qsize_cs"},
    "active1": {"unlock", "is_set_cs"}, "active1b": {"unlock", "thread_start"}, "active2": {"unlock"}, "begin": {"task_begin"}, "run": {"task_end"}, "fset": {"ev_set_future"},
    "taskdone": {"task_done"}, "dec": {"unlock"}, "cleanup": {"unlock", "qsize_cs"}, "cleanup2": {"unlock"}, "exit": {"unlock"}, "exiting": {"thread_exit"},
}


def replay_behaviour(beh, limit=400):
    """beh: {maxT, minT, nc, steps:[{who, pc (before), cop, timeout, st:{...}}]}  from MC_TPSim."""
    cfgb = beh["cfg"]
    R = PoolRun(cfgb["maxT"], cfgb["minT"], cfgb["nt"], cfgb["gated"], [], cfgb["nc"], cfgb.get("qcap", 0))
    S = R.S
    progs = {c: [] for c in range(1, cfgb["nc"] + 1)}
    for st in beh["steps"]:
        if st["who"] > 100 and st["pc"] == "fetch":
            progs[st["who"] - 100].append(st["op"])

    def client(c):
        def run():
            for op in progs[c]:
                if op[0] == "enq":
                    R.claimed.add(op[1])
                R.do_op(c, op)
        return run
    for c in progs:
        S.spawn(client(c), "client%d" % c, 100 + c)
    diverged = None
    k = 0
    for k, st in enumerate(beh["steps"]):
        who, pc = st["who"], st["pc"]
        ends = (CLIENT_ENDS if who > 100 else WORKER_ENDS).get(pc, set())
        if pc == "e1" and st["st"]["cpc"][who - 101] == "e1w":
            ends = None                  # full bounded queue: the client acquires the lock and blocks in put()
        if pc == "s4" and st["st"]["cpc"][who - 101] == "s5":
            ends = {"unlock"}            # (repaired start(): the pending counter is incremented in a critical section of its own)
        if ends is None:
            continue                     # silent spec step: nothing to advance
        t = S.by_idx(who)
        if t is None:
            diverged = "step %d: spec moves thread %d (pc %s) but the code has no such live thread" % (k, who, pc)
            break
        n0 = len(S.events)
        guard_steps = 0
        ok = False
        while True:
            new = [e for e in S.events[n0:] if e["thr"] == who]
            real = [e for e in new if (e["k"] not in STUTTER or (e["k"] == "ret" and "ret" in ends))
                    and not (pc == "p8" and e["k"] == "join_test" and e["st"]["unfinished"] != 0)]
            if real:
                ok = real[-1]["k"] in ends and len(real) == 1
                if not ok:
                    diverged = "step %d: spec %s from pc %s expects %s, code emitted %s" % (
                        k, who, pc, sorted(ends), [e["k"] for e in real])
                break
            if t.state != "ready":
                diverged = "step %d: thread %d finished before emitting %s" % (k, who, sorted(ends))
                break
            tmo = False
            if not S.is_enabled(t):
                if t.can_timeout and (pc == "get" and st["act"] == "timeout" or pc == "j2"
                                      or (pc == "e1w" and st["st"]["cpc"][who - 101] == "e1x")
                                      or (pc == "p3b" and t.op[0] == "qput")):
                    tmo = True
                else:
                    diverged = "step %d: spec moves %d from pc %s but the code is blocked on %s" % (k, who, pc, t.op[0])
                    break
            S.step(t, tmo)
            guard_steps += 1
            if guard_steps > limit:
                diverged = "step %d: thread %d ran %d yields without emitting %s" % (k, who, limit, sorted(ends))
                break
        if diverged:
            break
        if pc == "j2" and real and real[-1]["k"] == "join_read":
            # join(timeout) reads the counter inside "with all_tasks_done": the release of that mutex belongs to the same
            # spec step (it is invisible to the model), another client's timed join needs it
            extra = 0
            while t.state == "ready" and S.is_enabled(t) and extra < 6 and not any(
                    e["thr"] == who and e["k"] == "other_unlock" for e in S.events[n0:]):
                S.step(t, False)
                extra += 1
        # compare the projection with the spec state after the step
        e = [x for x in S.events[n0:] if x["thr"] == who][-1]
        sp, im = st["st"], e["st"]
        diffs = []
        for key in ("stop", "q", "unfinished", "ts"):
            if sp[key] != im[key]:
                diffs.append((key, sp[key], im[key]))
        if sorted(sp["alive"]) != im["alive"]:
            diffs.append(("alive", sp["alive"], im["alive"]))
        if e["k"] in ("unlock", "thread_start"):
            in_start = any(pc_ in ("s3", "s4", "s4w", "s5", "s5a", "s5b") for pc_ in sp["cpc"])   # unlocked nb_pending += 1 pending
            for key in ("nbT", "nbA", "nbP"):
                if key == "nbP" and in_start:
                    continue
                if sp[key] != im[key] and im[key] != -1:
                    diffs.append((key, sp[key], im[key]))
            if e["k"] == "unlock" and sorted(sp["tlist"]) != im["tlist"]:
                diffs.append(("tlist", sp["tlist"], im["tlist"]))
        if diffs:
            diverged = "step %d (%s from %s, event %s): state differs %s" % (k, who, pc, e["k"], diffs)
            break
    # let the execution run on to quiescence (continuation strategy: lowest thread id first, no time-outs)
    end = "quiescent"
    while True:
        en = [t for t in S.live() if S.is_enabled(t)]
        tmo = False
        if not en:
            en = [t for t in S.live() if t.can_timeout and t.idx >= 100]      # join(timeout) of a client expires
            tmo = True
        if not en:
            end = "quiescent" if S.live() else "done"
            break
        if S.steps > STEP_CAP:
            end = "truncated"
            break
        S.step(sorted(en, key=lambda t: t.idx)[0], tmo)
    blocked = [t.idx for t in S.live() if 100 <= t.idx < 200]
    ev = normalise(S.events)
    serving_lower_bound(ev, end)
    h = R.header(seed=0, end=end, ev=ev, blocked=blocked,
                 blockedop=[(R.cop.get(b - 100) or ["none"])[0] for b in blocked],
                 enq=R.enq_order, started=R.start_order, kind="replay", nsteps=S.steps,
                 diverged=diverged or "", matched=k + (0 if diverged else 1), of=len(beh["steps"]))
    S.kill_all()
    return h


if __name__ == "__main__":
    mode = sys.argv[1]
    t0 = time.time()
    if mode == "explore":
        # argv: explore <part> <nparts> <maxruns> <seed> <out>
        part, nparts, maxruns, seed, out = int(sys.argv[2]), int(sys.argv[3]), int(sys.argv[4]), int(sys.argv[5]), sys.argv[6]
        traces = explore(part, nparts, maxruns, random.Random(seed))
    elif mode == "extend":
        # argv[2]: json list of [seed, maxmax, nt, nc, extend, ext_seed]
        out = sys.argv[3]
        traces = [random_trace(a[0], a[1], a[2], a[3], True, a[4], a[5]) for a in json.load(open(sys.argv[2]))]
    elif mode == "random":
        n, seed, out = int(sys.argv[2]), int(sys.argv[3]), sys.argv[4]
        maxmax = int(sys.argv[5]) if len(sys.argv) > 5 else 2
        nt = int(sys.argv[6]) if len(sys.argv) > 6 else 3
        nc = int(sys.argv[7]) if len(sys.argv) > 7 else 1
        traces = [random_trace(seed * 100003 + i, maxmax, nt, nc) for i in range(n)]
    else:
        behs = json.load(open(sys.argv[2]))
        out = sys.argv[3]
        traces = [replay_behaviour(b) for b in behs]
    json.dump(traces, open(out, "w"))
    print(json.dumps({"traces": len(traces), "events": sum(len(t["ev"]) for t in traces),
                      "ends": {e: sum(t["end"] == e for t in traces) for e in ("done", "quiescent", "truncated")},
                      "diverged": sum(1 for t in traces if t.get("diverged")), "wall": round(time.time() - t0, 2)}))
