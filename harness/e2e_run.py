"""C01 recorder: calls through a real ServerProxy (plain, dotted, MultiCall, notifications; positional / keyword) to
recorder callables registered on real servers, over five legs: in-process loopback -> bare SimpleJSONRPCDispatcher,
TCP -> SimpleJSONRPCServer, TCP -> PooledJSONRPCServer, Unix socket -> both.  An attached History and a tap on the
server's dispatcher entry point give the two views of the wire.
  run <cases.json> <out.json> <seed> <rundir>"""
import json
import logging
import os
import random
import socket
import sys
import threading
import time

import jsonrpclib
import jsonrpclib.config
from jsonrpclib import jsonrpc
from jsonrpclib.history import History
from jsonrpclib.SimpleJSONRPCServer import SimpleJSONRPCDispatcher, SimpleJSONRPCServer, PooledJSONRPCServer
from harness.values import enc
from harness.errorcheck_run import Loop

logging.disable(logging.CRITICAL)
NAMES = ["add", "get_Value2", "x", "_under", "do_it", "m9"]
DOTTED = ["a.b", "svc.math.add", "x.y.z.w"]
UNI = ["méthode", "方法", "naïve_call", "do it", "Ω"]


def aliased(rnd):
    """Values whose Python object graph contains the same list / dict object more than once (not a cycle)."""
    row = rnd.choice([[1, 2], {"k": "v"}, [], ["é", None]])
    return rnd.choice([[row, row], {"first": row, "second": row}, [[0] * 2] * 3, [row, {"again": row}, 1]])


def value(cls, rnd):
    if cls in ("nested", "dictnested") and rnd.random() < 0.3:
        return aliased(rnd)
    return {"null": None, "bool": rnd.choice([True, False]), "zero": rnd.choice([0, 0.0, -0.0]), "int": rnd.choice([1, -7, 42]),
            "bigint": rnd.choice([2 ** 53, -2 ** 53, 2 ** 53 - 1]), "negfloat": rnd.choice([-1.5, 1e-9, 1.7976931348623157e308, 5e-324]),
            "emptystr": "", "unicode": rnd.choice(["é", "𝄞 x", "\u0000", "日本語", "\"q\\", " "]), "emptylist": [],
            "nested": rnd.choice([[1, [2, [3, None]], {"k": [False]}], [[], {}], (1, (2, "t")), [0, "", None, False]]),
            "emptydict": {}, "dictnested": rnd.choice([{"a": {"b": [1, {"c": None}]}, "é": 0}, {"": ""}, {"k": (1, 2)}])}[cls]


class ServerBox(object):
    """One server of a leg; taps the marshaled dispatch to see the exchanged texts; recorder callables by name."""

    def __init__(self, leg, vs, jc, rundir, n):
        self.cfg = jsonrpclib.config.Config(version=1.0 if vs == "1" else 2.0, use_jsonclass=jc)
        self.log, self.wire_req, self.wire_resp, self.rets = [], [], [], {}
        self.lock = threading.Lock()
        self.leg = leg
        if leg == "loopback":
            self.d = SimpleJSONRPCDispatcher(config=self.cfg)
        else:
            unix = leg.startswith("unix")
            kw = {"logRequests": False, "config": self.cfg}
            if unix:
                self.path = os.path.join(rundir, "e2e%d.sock" % n)
                addr = self.path
                kw["address_family"] = socket.AF_UNIX
            else:
                addr = ("127.0.0.1", 0)
            cls = PooledJSONRPCServer if leg.endswith("pooled") else SimpleJSONRPCServer
            old = None
            if unix:
                # hand-over of the socket path inside one process: an earlier server object bound it, its file was
                # removed (as the documentation tells the user to), the server of this leg binds the path again, and
                # only then is the earlier object closed
                old = cls(addr, **kw)
                os.unlink(self.path)
            self.d = cls(addr, **kw)
            if old is not None:
                old.server_close()
            self.url = ("unix+http://" + addr) if unix else "http://127.0.0.1:%d/" % self.d.server_address[1]
            self.thread = threading.Thread(target=self.d.serve_forever, kwargs={"poll_interval": 0.01}, daemon=True)
            self.thread.start()
        orig = self.d._marshaled_dispatch
        box = self

        def tap(data, dispatch_method=None, path=None):
            out = orig(data, dispatch_method, path)
            with box.lock:
                box.wire_req.append(data)
                box.wire_resp.append(out)
            return out
        self.d._marshaled_dispatch = tap

    def register(self, name, ret):
        box = self

        def rec(*a, **k):
            with box.lock:
                box.log.append({"name": name, "args": enc(list(a)), "kwargs": enc(k)})
            return box.rets[name]
        self.rets[name] = ret
        self.d.register_function(rec, name)

    def new_instance(self, ret):
        """Registers a fresh instance (it REPLACES the previous one): its public method `im`, and `sub.im` one level down,
        record the generation they belong to."""
        box = self
        box.gen = getattr(box, "gen", 0) + 1
        gen = box.gen
        box.inst_ret = ret

        def mk(label):
            def im(self_, *a, **k):
                with box.lock:
                    box.log.append({"name": "%s@%d" % (label, gen), "args": enc(list(a)), "kwargs": enc(k)})
                return box.inst_ret
            return im
        Sub = type("Sub", (object,), {"im": mk("sub.im")})
        Inst = type("Inst", (object,), {"im": mk("im")})
        inst = Inst()
        inst.sub = Sub()
        self.d.register_instance(inst, allow_dotted_names=True)

    def proxy(self, vc, jc, history):
        cfg = jsonrpclib.config.Config(version=1.0 if vc == "1" else 2.0, use_jsonclass=jc)
        if self.leg == "loopback":
            box = self

            class T(Loop):
                def request(self, host, handler, body, verbose=0):
                    return box.d._marshaled_dispatch(body)
            return jsonrpc.ServerProxy("http://loop/", transport=T(""), version=1.0 if vc == "1" else 2.0, history=history, config=cfg)
        return jsonrpc.ServerProxy(self.url, version=1.0 if vc == "1" else 2.0, history=history, config=cfg)

    def close(self):
        if self.leg != "loopback":
            try:
                self.d.shutdown()
                self.d.server_close()
            except BaseException:  # noqa
                pass
            if hasattr(self, "path"):
                try:
                    os.unlink(self.path)
                except OSError:
                    pass


MARKED = [{"__jsonclass__": ["datetime.date", [2020, 1, 2]]}, {"__jsonclass__": "just text"}, [1, {"k": {"__jsonclass__": ["decimal.Decimal", ["1.5"]]}}],
          {"__jsonclass__": ["no.such.Cls", []], "x": 1}, {"a": [{"__jsonclass__": []}]}, {"__jsonclass__": None}]


def resolve(p, name):
    m = p
    for part in name.split("."):
        m = getattr(m, part)
    return m


def run_case(c, box, rnd, counter):
    style = c["style"]
    njobs = {"batch1": 1, "batch2": 2, "batch3": 3, "batch_mixed": 3}.get(style, 1)
    jobs = []
    for j in range(njobs):
        counter[0] += 1
        base = rnd.choice(DOTTED) if style.startswith("dotted") else rnd.choice(UNI) if style.startswith("unicode") else rnd.choice(NAMES + (DOTTED if style.startswith("batch") else []))
        name = "%s_%d" % (base, counter[0])
        kw = style.endswith("_kw") or (style == "batch_mixed" and j == 1)
        notify = style.startswith("notify") or (style == "batch_mixed" and j == 2)
        ret = value(c["retc"] if j == 0 else rnd.choice(["null", "zero", "unicode", "nested", "emptydict"]), rnd)
        if style == "noargs":
            args, kwargs = [], {}
        elif kw:
            args, kwargs = [], {rnd.choice(["a", "b_c", "é", "x1"]): value(c["argc"], rnd), "second": value(rnd.choice(["int", "emptystr", "null"]), rnd)}
        else:
            args, kwargs = [value(c["argc"], rnd)] + [value(rnd.choice(["int", "unicode", "emptylist", "null", "zero"]), rnd) for _ in range(rnd.randint(0, 2))], {}
            if rnd.random() < 0.15 and isinstance(args[0], (list, dict)):
                args.append(args[0])            # the very same object passed twice
        if not c["jc"] and rnd.random() < 0.5:
            # class translation off on both sides: a '__jsonclass__' member is ordinary data
            which = rnd.choice(["ret", "arg", "both"])
            if which in ("ret", "both"):
                ret = rnd.choice(MARKED)
            if which in ("arg", "both") and style != "noargs":
                if kw:
                    kwargs["second"] = rnd.choice(MARKED)
                else:
                    args = args + [rnd.choice(MARKED)]
        inst = style in ("plain_pos", "plain_kw", "dotted_pos", "dotted_kw", "noargs") and rnd.random() < 0.15
        if inst:
            # a method of the registered instance; the instance is sometimes replaced since the last such call
            if not getattr(box, "gen", 0) or rnd.random() < 0.5:
                box.new_instance(ret)
            box.inst_ret = ret
            callname = "sub.im" if style.startswith("dotted") else "im"
            name = "%s@%d" % (callname, box.gen)
        else:
            callname = name
            box.register(name, ret)
        jobs.append({"name": name, "call": callname, "kw": kw, "notify": notify, "args": args, "kwargs": kwargs, "ret": ret})
    with box.lock:
        del box.log[:], box.wire_req[:], box.wire_resp[:]
    hist = History()
    p = box.proxy(c["vc"], c["jc"], hist)
    outcome = {"ok": True, "results": [], "single": enc(None), "exc": ""}
    try:
        if style.startswith("batch"):
            mc = jsonrpc.MultiCall(p)
            for job in jobs:
                target = resolve(mc._notify if job["notify"] else mc, job["call"])
                target(**job["kwargs"]) if job["kw"] else target(*job["args"])
            res = mc()
            outcome["results"] = [enc(x) for x in res]
        else:
            job = jobs[0]
            parts = job["call"].split(".")
            if len(parts) > 1 and rnd.random() < 0.5:
                # a retained prefix object (m = proxy.a.b) used for a sibling first, then for the call under test
                prefix = resolve(p._notify if job["notify"] else p, ".".join(parts[:-1]))
                warm = ".".join(parts[:-1]) + ".warm_%d" % counter[0]
                box.register(warm, None)
                try:
                    getattr(prefix, "warm_%d" % counter[0])()
                except BaseException:  # noqa
                    pass
                deadline = time.time() + 1.0
                while time.time() < deadline:
                    with box.lock:
                        if len(box.wire_resp) >= len(hist.responses) and box.log:
                            break
                    time.sleep(0.001)
                hist.clear()
                with box.lock:
                    del box.log[:], box.wire_req[:], box.wire_resp[:]
                target = getattr(prefix, parts[-1])
            else:
                if rnd.random() < 0.3:
                    # the same proxy has been used before for the same name, the other way round (a notification
                    # before the call under test, a call before the notification under test)
                    other = resolve(p if job["notify"] else p._notify, job["call"])
                    try:
                        other(**job["kwargs"]) if job["kw"] else other(*job["args"])
                    except BaseException:  # noqa
                        pass
                    deadline = time.time() + 1.0
                    while time.time() < deadline:
                        with box.lock:
                            if len(box.wire_resp) >= len(hist.responses) and box.log:
                                break
                        time.sleep(0.001)
                    hist.clear()
                    with box.lock:
                        del box.log[:], box.wire_req[:], box.wire_resp[:]
                target = resolve(p._notify if job["notify"] else p, job["call"])
            v = target(**job["kwargs"]) if job["kw"] else target(*job["args"])
            outcome["single"] = enc(v)
            if not job["notify"]:
                outcome["results"] = [enc(v)]
    except BaseException as e:  # noqa
        outcome.update(ok=False, exc="%s: %s" % (type(e).__name__, str(e)[:120]))
    if box.leg.endswith("pooled") or box.leg != "loopback":
        # the tap records after the reply has been produced; give the handler thread the moment it needs to append
        deadline = time.time() + 1.0
        while time.time() < deadline:
            with box.lock:
                if len(box.wire_resp) >= len(hist.responses):
                    break
            time.sleep(0.001)
    try:
        p("close")()
    except BaseException:  # noqa
        pass
    with box.lock:
        rec = {"a": c, "jobs": [{"name": j["name"], "kw": j["kw"], "notify": j["notify"], "args": enc(j["args"]), "kwargs": enc(j["kwargs"]),
                                 "ret": enc(j["ret"])} for j in jobs],
               "log": list(box.log), "outcome": outcome,
               "history": {"requests": list(hist.requests), "responses": list(hist.responses)},
               "wire": {"requests": list(box.wire_req), "responses": list(box.wire_resp)}}
    return rec


def run_long(box, rnd, counter, n):
    """One proxy, one History, n exchanges in a row: the History holds all of them, in order."""
    counter[0] += 1
    name = "long_%d" % counter[0]
    box.register(name, "r")
    with box.lock:
        del box.log[:], box.wire_req[:], box.wire_resp[:]
    hist = History()
    p = box.proxy("2", True, hist)
    jobs, results = [], []
    for k in range(n):
        args = [k, "call-%d" % k]
        try:
            results.append(enc(getattr(p, name)(*args)))
        except BaseException as e:  # noqa
            results.append(enc("raised " + type(e).__name__))
        jobs.append({"name": name, "kw": False, "notify": False, "args": enc(args), "kwargs": enc({}), "ret": enc("r")})
    deadline = time.time() + 2.0
    while time.time() < deadline:
        with box.lock:
            if len(box.wire_resp) >= n:
                break
        time.sleep(0.002)
    try:
        p("close")()
    except BaseException:  # noqa
        pass
    with box.lock:
        return {"a": {"style": "plain_pos", "vc": "2", "vs": "2", "leg": box.leg, "jc": True, "argc": "int", "retc": "unicode", "long": n},
                "jobs": jobs, "log": list(box.log), "outcome": {"ok": True, "results": results, "single": enc(None), "exc": ""},
                "history": {"requests": list(hist.requests), "responses": list(hist.responses)},
                "wire": {"requests": list(box.wire_req), "responses": list(box.wire_resp)}}


if __name__ == "__main__":
    import socket as _socket
    _socket.setdefaulttimeout(10)        # a peer (or a changed library) that never answers ends a call with an error, not a hang
    cases = json.load(open(sys.argv[2]))
    out, seed, rundir = sys.argv[3], int(sys.argv[4]), sys.argv[5]
    rnd = random.Random(seed)
    boxes, counter, recs = {}, [seed * 1000000], []
    for c in cases:
        key = (c["leg"], c["vs"], c["jc"])
        if key not in boxes:
            boxes[key] = ServerBox(c["leg"], c["vs"], c["jc"], rundir, seed * 100 + len(boxes))
        box = boxes[key]
        if getattr(box, "timeouts", 0) >= 2:
            continue                     # this server has stopped answering: two recorded time-outs say it all
        rec = run_case(c, box, rnd, counter)
        if "timed out" in rec["outcome"]["exc"] or "Timeout" in rec["outcome"]["exc"]:
            box.timeouts = getattr(box, "timeouts", 0) + 1
        recs.append(rec)
    # a long-lived History (well beyond any "reasonable" number of entries) on two legs
    for key, b in list(boxes.items())[:2]:
        if key[1] == "2":
            recs.append(run_long(b, rnd, counter, 130))
    for b in boxes.values():
        b.close()
    json.dump(recs, open(out, "w"))
    print(len(recs))
