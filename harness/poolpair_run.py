#!/usr/bin/env python
"""Two ThreadPool objects alive in one process (real threads, no scheduler): the pools of the specification are
independent instances of ThreadPool.tla - nothing one pool does may be visible in the other.  Random histories of
start / enqueue / join / stop over the pair; every call runs under a watchdog, and what the caller saw is recorded
for spec/PoolPairJudge.tla.

usage: poolpair_run.py <out.json> <seed> <ncases>
"""
import json
import logging
import os
import random
import sys
import threading
import time

logging.disable(logging.CRITICAL)
from jsonrpclib import threadpool

LIMIT = float(os.environ.get("VERIF_PAIR_LIMIT", "25"))      # a call that has not returned by then is "hung"


def watchdog(fn, *args):
    box = {}

    def body():
        try:
            box["v"] = fn(*args)
            box["k"] = "returned"
        except BaseException as ex:                              # noqa
            box["k"] = "raised:" + type(ex).__name__
    t = threading.Thread(target=body, name="verif-caller")
    t.daemon = True
    t.start()
    t.join(LIMIT)
    return box.get("k", "hung"), box.get("v")


def workers_alive(tag, grace=10.0):
    end = time.time() + grace
    while True:
        n = sum(1 for t in threading.enumerate() if t.name.startswith(tag + "-") and t.is_alive())
        if n == 0 or time.time() > end:
            return n
        time.sleep(0.02)


def serves(pool):
    """enqueue one task on a running pool and wait for its result: "ok" iff the very object comes back"""
    token = object()
    k, fut = watchdog(pool.enqueue, lambda: token)
    if k != "returned":
        return "enqueue-" + k
    k, v = watchdog(fut.result, LIMIT)
    if k != "returned":
        return "result-" + k
    return "ok" if v is token else "foreign"


def one_case(seed, idx):
    rnd = random.Random(seed)
    tags = ["A%dx%d" % (seed % 100000, idx), "B%dx%d" % (seed % 100000, idx)]
    sizes = [(rnd.randint(1, 3), rnd.randint(0, 2)) for _ in tags]
    pools = [threadpool.ThreadPool(mx, mn, logname=tag) for (mx, mn), tag in zip(sizes, tags)]
    running = [False, False]
    ops = []
    rec = {"seed": seed, "sizes": sizes, "ops": ops}
    n = rnd.randint(4, 12)
    aborted = False
    for step in range(n + 2):
        if step >= n:                                            # epilogue: whatever still runs is stopped
            p = step - n
            if not running[p]:
                continue
            op = "stop"
        else:
            p = rnd.randrange(2)
            op = rnd.choice(["enqueue", "enqueue", "join", "stop"]) if running[p] else "start"
        o = 1 - p
        pool = pools[p]
        e = {"p": "AB"[p], "op": op, "other_running": running[o]}
        if op == "start":
            e["ret"], _ = watchdog(pool.start)
            running[p] = True
            e["serves"] = serves(pool) if e["ret"] == "returned" else "na"
        elif op == "enqueue":
            e["ret"] = "returned"
            e["serves"] = serves(pool)
        elif op == "join":
            e["ret"], v = watchdog(pool.join, LIMIT)
            e["serves"] = "ok" if (e["ret"] != "returned" or v is True) else "join-false"
        else:
            e["ret"], _ = watchdog(pool.stop)
            running[p] = False
            e["own_alive_after"] = workers_alive(tags[p]) if e["ret"] == "returned" else -1
            e["serves"] = "na"
        # the other pool is exactly as it was: it still serves when it runs, and owns no live thread when it does not
        e["other_serves"] = serves(pools[o]) if running[o] else "na"
        e["other_alive_stopped"] = 0 if running[o] else workers_alive(tags[o], 0.0)
        ops.append(e)
        if e["ret"] != "returned" or e["other_serves"] not in ("ok", "na"):
            aborted = True
            break
    rec["aborted"] = aborted
    return rec


def main():
    out, seed, n = sys.argv[1], int(sys.argv[2]), int(sys.argv[3])
    recs = []
    for i in range(n):
        recs.append(one_case(seed * 7919 + i, i))
        if sum(r["aborted"] for r in recs) >= 3:                 # enough: every hung call costs LIMIT seconds
            break
    json.dump(recs, open(out, "w"))
    sys.stdout.flush()
    os._exit(0)                                                  # hung callers (daemon threads) are left behind


if __name__ == "__main__":
    main()
