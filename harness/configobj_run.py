"""C13 (Config.copy aliasing): mutation words from MC_ConfigObj replayed on real Config objects."""
import json
import sys

import jsonrpclib.config as C
from harness.values import enc


class K0(object):
    pass


def h0(*a):
    return "h0"


def snapshot(c):
    d = {}
    for f in ("version", "content_type", "user_agent", "use_jsonclass", "serialize_method", "ignore_attribute"):
        d[f] = getattr(c, f)
    d["classes"] = {str(k): getattr(v, "__name__", repr(v)) for k, v in c.classes.items()}
    d["serialize_handlers"] = {getattr(k, "__name__", repr(k)): getattr(v, "__name__", repr(v)) for k, v in c.serialize_handlers.items()}
    return enc(d)


def apply(side, m, n):
    f = m["f"]
    if m["op"] == "set":
        setattr(side, f, {"version": 1.0 + n, "use_jsonclass": "w%d" % n}.get(f, "w%d" % n))
    elif m["op"] == "put":
        if f == "classes":
            side.classes["W%d" % n] = type("W%d" % n, (object,), {})
        else:
            side.serialize_handlers[type("T%d" % n, (object,), {})] = h0
    elif m["op"] == "del":
        if f == "classes":
            side.classes.pop("e0", None)
        else:
            side.serialize_handlers.pop(K0, None)
    elif m["op"] == "rebind":
        setattr(side, f, {"R%d" % n: K0} if f == "classes" else {str: h0})


def run_word(word, variant):
    orig = C.Config(version=2.0, serialize_handlers={K0: h0}) if variant == 0 else C.Config(version=1.0, content_type="application/json", user_agent="ua", use_jsonclass=False, serialize_method="_s", ignore_attribute="_i", serialize_handlers={K0: h0})
    orig.classes["e0"] = K0
    cp = orig.copy()
    sides = {"orig": orig, "copy": cp}
    base = {"orig": snapshot(orig), "copy": snapshot(cp)}
    for n, m in enumerate(word, 1):
        apply(sides[m["side"]], m, n)
    return {"word": word, "variant": variant, "base": base, "final": {"orig": snapshot(orig), "copy": snapshot(cp)},
            "equalcopy": base["orig"] == base["copy"]}


if __name__ == "__main__":
    words = json.load(open(sys.argv[1]))
    recs = [run_word(w["word"], v) for w in words for v in (0, 1)]
    json.dump(recs, open(sys.argv[2], "w"))
    print(len(recs))
