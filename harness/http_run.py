"""Spec growth (HttpLayer.tla): raw HTTP exchanges with real SimpleJSONRPCServer / PooledJSONRPCServer listeners.
  run <cases.json> <out.json> <seed>
Each case is a request class enumerated by TLC; it is turned into bytes, sent on a fresh connection which is then
half-closed, and the whole answer is read until the peer closes."""
import gzip
import json
import logging
import random
import socket
import sys
import threading

import jsonrpclib.config
from jsonrpclib.SimpleJSONRPCServer import SimpleJSONRPCServer, PooledJSONRPCServer

logging.disable(logging.CRITICAL)
CALL = {"jsonrpc": "2.0", "id": 7, "method": "echo", "params": ["hé ✓"]}


def body_bytes(kind, rnd):
    call = json.dumps(CALL, ensure_ascii=rnd.random() < 0.5).encode("utf-8")
    return {"call": call, "notif": json.dumps({"jsonrpc": "2.0", "method": "echo", "params": [1]}).encode(),
            "batch": json.dumps([CALL, dict(CALL, id=8)]).encode(), "badjson": b'{"jsonrpc": "2.0", "id"',
            "badutf8": b'{"jsonrpc": "2.0", "id": 1, "method": "echo", "params": ["\xff\xfe"]}', "empty": b"",
            "gzipcall": gzip.compress(call)}[kind]


def build(req, rnd):
    body = body_bytes(req["body"], rnd)
    path = {"root": rnd.choice(["/", "/", "//"]), "rpc2": rnd.choice(["/RPC2", "/RPC2", "/pydoc.css"]), "other": rnd.choice(["/foo", "/rpc2", "/RPC2/x", "/RPC2/"]), "rootquery": rnd.choice(["/?a=1", "/RPC2?x=y"])}[req["path"]]
    lines = ["%s %s HTTP/%s" % (req["m"], path, req["ver"]), "Host: localhost", "Content-Type: application/json"]
    ln = {"exact": str(len(body)), "absent": None, "nonnum": rnd.choice(["abc", "1x", ""]), "negative": rnd.choice(["-2", "-5", "-100000"]), "minus1": "-1",
          "long": str(len(body) + rnd.choice([1, 7, 5000]))}[req["len"]]
    if ln is not None:
        lines.append("Content-Length: " + ln)
    if req["enc"] != "none":
        lines.append("Content-Encoding: " + req["enc"])
    if req["ka"]:
        lines.append("Connection: keep-alive")
    rnd.shuffle(lines[1:])
    return ("\r\n".join(lines) + "\r\n\r\n").encode("latin-1") + body


def exchange(addr, raw):
    sk = socket.create_connection(addr, timeout=5)
    try:
        sk.sendall(raw)
        sk.shutdown(socket.SHUT_WR)
        out, closed = b"", False
        try:
            while True:
                d = sk.recv(65536)
                if not d:
                    closed = True
                    break
                out += d
        except OSError as e:
            return out, "error:" + type(e).__name__
        return out, "closed" if closed else "open"
    finally:
        sk.close()


def parse(out, ctype_cfg):
    head, _, body = out.partition(b"\r\n\r\n")
    lines = head.decode("latin-1").split("\r\n")
    parts = lines[0].split(" ", 2)
    status = int(parts[1]) if len(parts) > 1 and parts[1].isdigit() else -1
    hdr = {}
    for l in lines[1:]:
        k, _, v = l.partition(":")
        hdr.setdefault(k.strip().lower(), []).append(v.strip())
    ct = hdr.get("content-type", [""])[0]
    ctype = "config" if ct == ctype_cfg else "text/plain" if ct == "text/plain" else "html" if ct.startswith("text/html") else "none" if ct == "" else "other:" + ct
    declared = hdr.get("content-length", [""])
    kind = "other"
    if body == b"":
        kind = "empty"
    elif body == b"No such page":
        kind = "nosuchpage"
    elif ctype == "html":
        kind = "html"
    else:
        try:
            v = json.loads(body.decode("utf-8"))
            if isinstance(v, list):
                kind = "array" if [x.get("id") for x in v] == [7, 8] and all(x.get("result") == CALL["params"][0] for x in v) else "array-wrong"
            elif isinstance(v, dict) and "error" in v and isinstance(v["error"], dict):
                kind = "error%d" % v["error"].get("code", 0)
            elif isinstance(v, dict) and v.get("result") == CALL["params"][0] and v.get("id") == 7:
                kind = "result"
        except ValueError:
            pass
    return {"status": status, "proto": parts[0], "ctype": ctype, "kind": kind, "nlen": len(declared),
            "lenexact": len(declared) == 1 and declared[0].isdigit() and int(declared[0]) == len(body)}


if __name__ == "__main__":
    cases = json.load(open(sys.argv[2]))
    out, seed = sys.argv[3], int(sys.argv[4])
    rnd = random.Random(seed)
    cfg = jsonrpclib.config.Config(content_type=rnd.choice(["application/json-rpc", "application/json", "text/x-verif"]))
    sys.stderr = open("/dev/null", "w")          # send_error() logs refused methods whatever logRequests says
    servers = []
    for cls in (SimpleJSONRPCServer, PooledJSONRPCServer):
        s = cls(("127.0.0.1", 0), logRequests=False, config=cfg)
        s.register_function(lambda x: x, "echo")
        threading.Thread(target=s.serve_forever, kwargs={"poll_interval": 0.01}, daemon=True).start()
        servers.append(s)
    recs = []
    for c in cases:
        for s, name in zip(servers, ("simple", "pooled")):
            raw = build(c["req"], rnd)
            resp, end = exchange(s.server_address, raw)
            o = parse(resp, cfg.content_type)
            o["end"] = end
            recs.append({"req": c["req"], "expect": c["expect"], "server": name, "obs": o, "sent": raw[:200].decode("latin-1")})
    for s in servers:
        s.shutdown()
        s.server_close()
    json.dump(recs, open(out, "w"))
    print(len(recs))
