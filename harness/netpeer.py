"""Scripted raw-socket peers (DESIGN 4.9).

RecordingPeer: an HTTP/1.1 server on 127.0.0.1:0 (or a Unix socket) that records every request exactly as received
(request line, header lines in order, body bytes) and answers with a canned JSON-RPC result, keeping the connection
alive.  ScriptedPeer (C19) answers the n-th request with scripted bytes / close / reset."""
import json
import os
import socket
import struct
import threading
import time


def _recv_request(conn, buf):
    """Reads one HTTP request from conn (buf: bytes already received). Returns (head_bytes, body_bytes, rest) or None."""
    while b"\r\n\r\n" not in buf:
        chunk = conn.recv(65536)
        if not chunk:
            return None
        buf += chunk
    head, rest = buf.split(b"\r\n\r\n", 1)
    length = 0
    for line in head.split(b"\r\n")[1:]:
        if line.lower().startswith(b"content-length:"):
            try:
                length = int(line.split(b":", 1)[1].strip())
            except ValueError:
                length = 0
    while len(rest) < length:
        chunk = conn.recv(65536)
        if not chunk:
            break
        rest += chunk
    return head, rest[:length], rest[length:]


class RecordingPeer(object):
    def __init__(self, unix_path=None, reply=None, probe_excess=False):
        self.requests = []          # dicts: line, headers [(name, value)], body (bytes), excess (bytes sent beyond the announced body)
        self.probe_excess = probe_excess
        self.lock = threading.Lock()
        self.reply = reply
        if unix_path:
            self.sock = socket.socket(socket.AF_UNIX, socket.SOCK_STREAM)
            self.sock.bind(unix_path)
            self.addr = unix_path
        else:
            self.sock = socket.socket(socket.AF_INET, socket.SOCK_STREAM)
            self.sock.setsockopt(socket.SOL_SOCKET, socket.SO_REUSEADDR, 1)
            self.sock.bind(("127.0.0.1", 0))
            self.addr = self.sock.getsockname()
        self.sock.listen(16)
        self.sock.settimeout(None)           # (a harness may have set a default socket time-out: the listener itself never times out)
        self.stop = False
        self.thread = threading.Thread(target=self._serve, daemon=True)
        self.thread.start()

    def _serve(self):
        while not self.stop:
            try:
                conn, _ = self.sock.accept()
            except OSError:
                return
            threading.Thread(target=self._conn, args=(conn,), daemon=True).start()

    def _conn(self, conn):
        buf = b""
        try:
            while True:
                r = _recv_request(conn, buf)
                if r is None:
                    return
                head, body, buf = r
                lines = head.split(b"\r\n")
                headers = []
                for l in lines[1:]:
                    if b":" in l:
                        n, v = l.split(b":", 1)
                        headers.append((n.decode("latin-1"), v.strip().decode("latin-1")))
                excess = 0
                if self.probe_excess:
                    # the client does not pipeline: whatever follows the announced body belongs to this very message
                    conn.settimeout(0.05)
                    try:
                        more = conn.recv(65536)
                    except OSError:
                        more = b""
                    conn.settimeout(None)
                    excess, buf = len(buf) + len(more), b""
                with self.lock:
                    self.requests.append({"line": lines[0].decode("latin-1"), "headers": headers, "body": body, "excess": excess})
                out = self.reply(body) if self.reply else self._default(body)
                conn.sendall(b"HTTP/1.1 200 OK\r\nContent-Type: application/json-rpc\r\nContent-Length: " +
                             str(len(out)).encode() + b"\r\n\r\n" + out)
        except OSError:
            pass
        finally:
            try:
                conn.close()
            except OSError:
                pass

    @staticmethod
    def _default(body):
        try:
            req = json.loads(body.decode("utf-8"))
        except ValueError:
            return b""
        def one(r):
            if isinstance(r, dict) and "id" in r and r["id"] is not None:
                return {"jsonrpc": "2.0", "id": r["id"], "result": "ok"} if "jsonrpc" in r else {"id": r["id"], "result": "ok", "error": None}
            return None
        if isinstance(req, list):
            res = [x for x in (one(r) for r in req) if x is not None]
            return json.dumps(res).encode() if res else b""
        x = one(req)
        return json.dumps(x).encode() if x is not None else b""

    def url(self, path="/"):
        if isinstance(self.addr, tuple):
            return "http://%s:%d%s" % (self.addr[0], self.addr[1], path)
        return "unix+http://%s" % self.addr

    def close(self):
        self.stop = True
        try:
            self.sock.close()
        except OSError:
            pass
        if not isinstance(self.addr, tuple):
            try:
                os.unlink(self.addr)
            except OSError:
                pass


def rst_close(conn):
    """Closes with RST (SO_LINGER 0)."""
    try:
        conn.setsockopt(socket.SOL_SOCKET, socket.SO_LINGER, struct.pack("ii", 1, 0))
    except OSError:
        pass
    conn.close()


class ScriptedPeer(object):
    """C19: an HTTP peer that treats the n-th request it receives according to a script item.
    Items: H (healthy keep-alive), HC (healthy, Connection: close, then close), CB (close before reply), RS (reset),
    E4L (404 with length), E5L (500 with length, body looks like an HTTP 200 reply carrying a stale result),
    E5N (503 without length, then close), BS (bodiless 204, keep-alive), B3 (bodiless 304, keep-alive), TR (truncated body),
    E0 (empty 200), NJ (non-JSON 200), S202 (202 with Content-Length 0), S203 (203 with a JSON body carrying a foreign token).
    'RF' (refuse) is handled by the driver: down() closes the listener and every connection, up() reopens the same address.
    Requests beyond the script are healthy."""

    def __init__(self, unix_path=None):
        self.unix_path = unix_path
        self.script = []
        self.log = []           # (token, item)
        self.lock = threading.Lock()
        self.conns = set()
        self.port = None
        self.sock = None
        self.up()

    def up(self):
        if self.unix_path:
            try:
                os.unlink(self.unix_path)
            except OSError:
                pass
            s = socket.socket(socket.AF_UNIX, socket.SOCK_STREAM)
            s.bind(self.unix_path)
        else:
            s = socket.socket(socket.AF_INET, socket.SOCK_STREAM)
            s.setsockopt(socket.SOL_SOCKET, socket.SO_REUSEADDR, 1)
            s.bind(("127.0.0.1", self.port or 0))
            self.port = s.getsockname()[1]
        s.listen(16)
        s.settimeout(None)                   # the listener itself never times out, whatever the process-wide default
        self.sock = s
        threading.Thread(target=self._serve, args=(s,), daemon=True).start()

    def down(self):
        try:
            self.sock.shutdown(socket.SHUT_RDWR)      # wakes the blocked accept(): the listener really goes away
        except OSError:
            pass
        try:
            self.sock.close()
        except OSError:
            pass
        if self.unix_path:
            try:
                os.unlink(self.unix_path)
            except OSError:
                pass
        with self.lock:
            conns = list(self.conns)
        for c in conns:
            try:
                c.shutdown(socket.SHUT_RDWR)
            except OSError:
                pass
            try:
                c.close()
            except OSError:
                pass

    def url(self):
        return "unix+http://%s" % self.unix_path if self.unix_path else "http://127.0.0.1:%d/rpc" % self.port

    def _serve(self, s):
        while True:
            try:
                conn, _ = s.accept()
            except OSError:
                return
            with self.lock:
                self.conns.add(conn)
            threading.Thread(target=self._conn, args=(conn,), daemon=True).start()

    def _conn(self, conn):
        buf = b""
        try:
            while True:
                r = _recv_request(conn, buf)
                if r is None:
                    return
                head, body, buf = r
                try:
                    req = json.loads(body.decode("utf-8"))
                    token = req["params"][0] if isinstance(req, dict) else None
                    rid = req.get("id") if isinstance(req, dict) else None
                    v2 = isinstance(req, dict) and "jsonrpc" in req
                except (ValueError, KeyError, IndexError, TypeError):
                    token, rid, v2 = None, None, True
                with self.lock:
                    item = self.script.pop(0) if self.script else "H"
                    self.log.append((token, item))

                def reply_json(tok):
                    d = {"jsonrpc": "2.0", "id": rid, "result": tok} if v2 else {"id": rid, "result": tok, "error": None}
                    return json.dumps(d).encode()

                def send(status, body_bytes, extra=b"", length=True):
                    h = b"HTTP/1.1 " + status + b"\r\nContent-Type: application/json-rpc\r\n"
                    if length:
                        h += b"Content-Length: " + str(len(body_bytes)).encode() + b"\r\n"
                    conn.sendall(h + extra + b"\r\n" + body_bytes)
                if item == "H":
                    send(b"200 OK", reply_json(token))
                elif item == "HC":
                    send(b"200 OK", reply_json(token), extra=b"Connection: close\r\n")
                    return
                elif item == "CB":
                    return
                elif item == "RS":
                    rst_close(conn)
                    return
                elif item == "E4L":
                    send(b"404 Not Found", b"nothing here")
                elif item == "E5L":
                    stale = reply_json("stale-token")
                    send(b"500 Internal Server Error", b"HTTP/1.1 200 OK\r\nContent-Length: " + str(len(stale)).encode() + b"\r\n\r\n" + stale)
                elif item == "E5N":
                    send(b"503 Service Unavailable", b"down", length=False)
                    return
                elif item == "BS":
                    send(b"204 No Content", b"", length=False)
                elif item == "B3":
                    send(b"304 Not Modified", b"", length=False)
                elif item == "B103":
                    send(b"103 Early Hints", b"", length=False)        # (status numbers that coincide with errno values)
                elif item == "B104":
                    send(b"104 Odd", b"", length=False)
                elif item == "TR":
                    # (the announced length is that of the complete reply - the same as any earlier reply of this peer -
                    # every other time, and larger than anything sent before otherwise)
                    full = reply_json(token)
                    with self.lock:
                        self.ntr = getattr(self, "ntr", 0) + 1
                        pad = 0 if self.ntr % 2 else 50
                    conn.sendall(b"HTTP/1.1 200 OK\r\nContent-Type: application/json-rpc\r\nContent-Length: " + str(len(full) + pad).encode() + b"\r\n\r\n" + full[:5])
                    return
                elif item == "TRC":
                    # chunked answer (larger than the client's read size) cut in the middle of its second chunk: the
                    # client has already parsed part of the body when its read raises
                    full = reply_json(str(token) + "." * 3000)
                    conn.sendall(b"HTTP/1.1 200 OK\r\nContent-Type: application/json-rpc\r\nTransfer-Encoding: chunked\r\n\r\n" +
                                 b"800\r\n" + full[:2048] + b"\r\n" + b"400\r\n" + full[2048:2100])
                    return
                elif item == "E5BIG":
                    # an error page much larger than what arrives with the headers, on a connection that is kept alive
                    send(b"503 Service Unavailable", b"<html>" + b"x" * 20000 + b"</html>")
                elif item in ("J601", "J42"):
                    # a healthy exchange whose JSON-RPC reply reports an error (pre-defined code / application code with data)
                    err = {"code": -32601, "message": "Method not found"} if item == "J601" else {"code": 42, "message": "app", "data": {"k": [1, 2]}}
                    d = {"jsonrpc": "2.0", "id": rid, "error": err} if v2 else {"id": rid, "result": None, "error": err}
                    send(b"200 OK", json.dumps(d).encode())
                elif item == "JRAW":
                    # a result sent as raw UTF-8 (not \\u-escaped): decomposed and compatibility characters, as they are
                    d = {"jsonrpc": "2.0", "id": rid, "result": ["cafe\u0301", "\u212b", {"k\u0308": "\u1e9b\u0323"}]} if v2 else \
                        {"id": rid, "result": ["cafe\u0301", "\u212b", {"k\u0308": "\u1e9b\u0323"}], "error": None}
                    send(b"200 OK", json.dumps(d, ensure_ascii=False).encode("utf-8"))
                elif item == "E0":
                    send(b"200 OK", b"")
                elif item == "SLOW":
                    # a healthy answer that takes its time (the caller may give up meanwhile)
                    time.sleep(0.4)
                    send(b"200 OK", reply_json(token))
                elif item == "NJ":
                    send(b"200 OK", b"<html>not json</html>")
                elif item == "S202":
                    send(b"202 Accepted", b"")
                elif item == "S203":
                    send(b"203 Non-Authoritative Information", reply_json("foreign-token"))
                else:
                    send(b"200 OK", reply_json(token))
        except OSError:
            pass
        finally:
            with self.lock:
                self.conns.discard(conn)
            try:
                conn.close()
            except OSError:
                pass
