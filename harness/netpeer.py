"""Scripted raw-socket peers (DESIGN 4.9).

RecordingPeer: an HTTP/1.1 server on 127.0.0.1:0 (or a Unix socket) that records every request exactly as received
(request line, header lines in order, body bytes) and answers with a canned JSON-RPC result, keeping the connection
alive.  ScriptedPeer (C19) answers the n-th request with scripted bytes / close / reset."""
import json
import os
import socket
import struct
import threading


def _recv_request(conn, buf):
    """Reads one HTTP request from conn (buf: bytes already received). Returns (head_bytes, body_bytes, rest) or None."""
    while b"\r\n\r\n" not in buf:
        chunk = conn.recv(65536)
        if not chunk:
            return None
        buf += chunk
    head, rest = buf.split(b"\r\n\r\n", 1)
    length = 0
    for line in head.split(b"\r\n")[1:]:
        if line.lower().startswith(b"content-length:"):
            try:
                length = int(line.split(b":", 1)[1].strip())
            except ValueError:
                length = 0
    while len(rest) < length:
        chunk = conn.recv(65536)
        if not chunk:
            break
        rest += chunk
    return head, rest[:length], rest[length:]


class RecordingPeer(object):
    def __init__(self, unix_path=None, reply=None):
        self.requests = []          # dicts: line, headers [(name, value)], body (bytes)
        self.lock = threading.Lock()
        self.reply = reply
        if unix_path:
            self.sock = socket.socket(socket.AF_UNIX, socket.SOCK_STREAM)
            self.sock.bind(unix_path)
            self.addr = unix_path
        else:
            self.sock = socket.socket(socket.AF_INET, socket.SOCK_STREAM)
            self.sock.setsockopt(socket.SOL_SOCKET, socket.SO_REUSEADDR, 1)
            self.sock.bind(("127.0.0.1", 0))
            self.addr = self.sock.getsockname()
        self.sock.listen(16)
        self.stop = False
        self.thread = threading.Thread(target=self._serve, daemon=True)
        self.thread.start()

    def _serve(self):
        while not self.stop:
            try:
                conn, _ = self.sock.accept()
            except OSError:
                return
            threading.Thread(target=self._conn, args=(conn,), daemon=True).start()

    def _conn(self, conn):
        buf = b""
        try:
            while True:
                r = _recv_request(conn, buf)
                if r is None:
                    return
                head, body, buf = r
                lines = head.split(b"\r\n")
                headers = []
                for l in lines[1:]:
                    if b":" in l:
                        n, v = l.split(b":", 1)
                        headers.append((n.decode("latin-1"), v.strip().decode("latin-1")))
                with self.lock:
                    self.requests.append({"line": lines[0].decode("latin-1"), "headers": headers, "body": body})
                out = self.reply(body) if self.reply else self._default(body)
                conn.sendall(b"HTTP/1.1 200 OK\r\nContent-Type: application/json-rpc\r\nContent-Length: " +
                             str(len(out)).encode() + b"\r\n\r\n" + out)
        except OSError:
            pass
        finally:
            try:
                conn.close()
            except OSError:
                pass

    @staticmethod
    def _default(body):
        try:
            req = json.loads(body.decode("utf-8"))
        except ValueError:
            return b""
        def one(r):
            if isinstance(r, dict) and "id" in r and r["id"] is not None:
                return {"jsonrpc": "2.0", "id": r["id"], "result": "ok"} if "jsonrpc" in r else {"id": r["id"], "result": "ok", "error": None}
            return None
        if isinstance(req, list):
            res = [x for x in (one(r) for r in req) if x is not None]
            return json.dumps(res).encode() if res else b""
        x = one(req)
        return json.dumps(x).encode() if x is not None else b""

    def url(self, path="/"):
        if isinstance(self.addr, tuple):
            return "http://%s:%d%s" % (self.addr[0], self.addr[1], path)
        return "unix+http://%s" % self.addr

    def close(self):
        self.stop = True
        try:
            self.sock.close()
        except OSError:
            pass
        if not isinstance(self.addr, tuple):
            try:
                os.unlink(self.addr)
            except OSError:
                pass


def rst_close(conn):
    """Closes with RST (SO_LINGER 0)."""
    try:
        conn.setsockopt(socket.SOL_SOCKET, socket.SO_LINGER, struct.pack("ii", 1, 0))
    except OSError:
        pass
    conn.close()
