"""C12 recorder (schedule tier): the real PooledJSONRPCServer object (not bound), process_request called directly with
in-memory socket objects, handlers running on the real ThreadPool loaded over the threading/queue shims under the
controlled scheduler.  Every request carries a unique token; the reply captured on each in-memory socket must answer
that very request.  run <out.json> <seed> <n>"""
import io
import json
import logging
import random
import sys

from harness import detsched

logging.disable(logging.CRITICAL)


class Hooks(object):
    pass


class FakeSock(object):
    def __init__(self, data):
        self.rdata = data
        self.out = io.BytesIO()
        self.closed = False

    def makefile(self, mode, bufsize=-1):
        if "r" in mode:
            return io.BytesIO(self.rdata)
        sock = self

        class W(object):
            def write(self, b):
                sock.out.write(b)
                return len(b)

            def flush(self):
                pass

            def close(self):
                pass
            closed = False
        return W()

    def settimeout(self, t):
        pass

    def setsockopt(self, *a):
        pass

    def shutdown(self, how):
        pass

    def close(self):
        self.closed = True

    def getpeername(self):
        return ("127.0.0.1", 1)

    def sendall(self, b):
        self.out.write(b)


STUCK_RUNS = [0]


def one(seed):
    rnd = random.Random(seed)
    S = detsched.Sched()
    S.STEP_TIMEOUT = 1.5
    H = Hooks()
    H.srcfile = None
    walive = set()

    def alloc(shim):
        i = min(x for x in range(101, 140) if x not in walive)
        walive.add(i)
        return i
    H.alloc, H.dead = alloc, walive.discard
    H.on_put = H.on_get = H.on_drop = lambda item: None
    H.ev = lambda kind, obj, fn: None
    th, qm = detsched.make_shims(S, H)
    tp = detsched.load_module_with_shims("jsonrpclib.threadpool", th, qm)
    detsched.trace_fields(S, tp.ThreadPool, detsched.POOL_COUNTERS, "_ThreadPool__lock")
    H.srcfile = tp.__file__
    import jsonrpclib.config
    from jsonrpclib.SimpleJSONRPCServer import PooledJSONRPCServer
    maxw = rnd.choice([1, 2, 3])
    pool = tp.ThreadPool(maxw, rnd.choice([0, 0, 1]), logname="sp")
    pool.start()
    cfg = jsonrpclib.config.Config(version=rnd.choice([1.0, 2.0]))
    srv = PooledJSONRPCServer(("127.0.0.1", 0), logRequests=False, bind_and_activate=False, config=cfg, thread_pool=pool)
    execs = {}

    def mk(name, raises=False):
        def fn(tok):
            S.yield_(("method", name, tok))
            execs[tok] = execs.get(tok, 0) + 1
            S.yield_(("method-end", name, tok))
            if raises:
                raise RuntimeError("boom " + tok)
            return tok
        return fn
    srv.register_function(mk("echo"), "echo")
    srv.register_function(mk("boom", True), "boom")
    n = rnd.randint(1, 5)
    reqs = []
    for k in range(n):
        tok = "t%d-%d" % (seed, k)
        kind = rnd.choice(["call", "call", "fail", "invalid", "batch", "notify", "truncated"])
        if kind == "call":
            body = {"jsonrpc": "2.0", "id": tok, "method": "echo", "params": [tok]}
        elif kind == "fail":
            body = {"jsonrpc": "2.0", "id": tok, "method": "boom", "params": [tok]}
        elif kind == "batch":
            body = [{"jsonrpc": "2.0", "id": tok, "method": "echo", "params": [tok]}, {"jsonrpc": "2.0", "id": tok + "#2", "method": "echo", "params": [tok + "#2"]}]
        elif kind == "notify":
            body = [{"jsonrpc": "2.0", "method": "echo", "params": [tok + "#n"]}, {"jsonrpc": "2.0", "id": tok, "method": "echo", "params": [tok]}]
        else:
            body = None
        if kind == "truncated":
            body = {"jsonrpc": "2.0", "id": tok, "method": "echo", "params": [tok]}
        raw = ("{broken " + tok).encode() if body is None else json.dumps(body).encode()
        announced = len(raw) + (30 if kind == "truncated" else 0)          # truncated: the stream ends before the announced length
        if kind == "truncated":
            raw = raw[:-4]
        data = b"POST / HTTP/1.0\r\nContent-Length: " + str(announced).encode() + b"\r\nContent-Type: application/json\r\n\r\n" + raw
        reqs.append({"token": tok, "kind": kind, "sock": FakeSock(data)})
    state = {"closed": False, "close_ret": False}

    def acceptor():
        for r in reqs:
            S.yield_(("accept", r["token"]))
            srv.process_request(r["sock"], ("127.0.0.1", 1))
        if rnd.random() < 0.7 and STUCK_RUNS[0] < 3:      # (after three blocked closes the point is made: do not wait for more)
            S.yield_(("close",))
            state["closed"] = True
            srv.server_close()
            state["close_ret"] = True
    S.spawn(acceptor, "acceptor", 1)
    sticky = rnd.choice([0.0, 0.5, 0.9])
    cur, end, steps = None, "done", 0
    while True:
        live = S.live()
        en = [t for t in live if S.is_enabled(t)]
        tm = [t for t in live if not S.is_enabled(t) and t.can_timeout]
        if not en:
            end = "done" if not [t for t in live if t.idx < 100] and not S.stuck else "deadlock"
            break
        if tm and rnd.random() < 0.05:
            t, tmo = rnd.choice(tm), True
        else:
            t, tmo = (cur if (cur in en and rnd.random() < sticky) else rnd.choice(en)), False
        if not tmo:
            cur = t
        S.step(t, tmo)
        steps += 1
        if steps > 6000:
            end = "truncated"
            break
    out = []
    for r in reqs:
        raw = r["sock"].out.getvalue()
        head, _, body = raw.partition(b"\r\n\r\n")
        status = head.split(b"\r\n")[0].decode("latin-1") if head else ""
        tokens, err = [], ""
        try:
            v = json.loads(body.decode("utf-8")) if body else None
            for x in (v if isinstance(v, list) else [v] if v is not None else []):
                if isinstance(x, dict):
                    tokens.append(str(x.get("result")) if "result" in x and x.get("result") is not None else "error:%s" % (x.get("error") or {}).get("code"))
        except ValueError:
            err = "unparseable reply"
        want = {"call": [r["token"]], "fail": ["error:-32603"], "invalid": ["error:-32700"], "truncated": ["error:-32700"],
                "batch": [r["token"], r["token"] + "#2"], "notify": [r["token"]]}[r["kind"]]
        out.append({"token": r["token"], "kind": r["kind"], "status": status, "tokens": tokens, "want": want, "err": err,
                    "answered": bool(raw), "execs": execs.get(r["token"], 0), "execs2": execs.get(r["token"] + "#2", 0),
                    "execsn": execs.get(r["token"] + "#n", 0), "sock_closed": r["sock"].closed})
    if S.stuck:
        STUCK_RUNS[0] += 1
    alive_workers = sorted(walive)
    res = {"seed": seed, "maxw": maxw, "end": end, "reqs": out, "closed": state["closed"], "close_returned": state["close_ret"],
           "alive_workers": alive_workers, "nsteps": steps}
    S.kill_all()
    return res


if __name__ == "__main__":
    import os
    import resource
    resource.setrlimit(resource.RLIMIT_AS, (3 << 30, 3 << 30))
    out, seed, n = sys.argv[2], int(sys.argv[3]), int(sys.argv[4])
    off = int(sys.argv[5]) if len(sys.argv) > 5 else 0
    CHUNK = 150
    if n > CHUNK:
        # a long series is run in fresh processes of CHUNK executions each: parked OS threads of finished executions (and
        # the allocator arenas that come with them) would otherwise add up to the address-space limit set above
        import subprocess
        recs = []
        for c in range(0, n, CHUNK):
            part = out + ".part"
            env = dict(os.environ, MALLOC_ARENA_MAX="2")
            rc = subprocess.call([sys.executable, os.path.abspath(__file__), "run", part, str(seed), str(min(CHUNK, n - c)), str(c)], env=env,
                                 stdout=subprocess.DEVNULL)
            if rc != 0 or not os.path.exists(part):
                sys.stderr.write("chunk at %d failed rc=%s\n" % (c, rc))
                sys.exit(3)
            chunk = json.load(open(part))
            os.remove(part)
            recs += chunk
            if chunk and chunk[-1]["end"] == "deadlock" and len(chunk) < min(CHUNK, n - c):
                break                    # that process gave up after a blocked execution: the point is made
        json.dump(recs, open(out, "w"))
        print(len(recs))
        sys.exit(0)
    recs = []
    for i in range(n):
        recs.append(one(seed * 100003 + off + i))
        if STUCK_RUNS[0] >= 1 and recs[-1]["end"] == "deadlock":
            # a thread is blocked (or spinning) outside the scheduler's control and cannot be stopped: the point is made,
            # write what was recorded and leave the process at once
            json.dump(recs, open(out, "w"))
            print(len(recs))
            sys.stdout.flush()
            os._exit(0)
    json.dump(recs, open(out, "w"))
    print(len(recs))
