"""C18 recorder: header histories (from MC_Headers) executed on a real ServerProxy against the recording peer.
  run <histories.json> <out.json> <seed> <transport: tcp|unix> <rundir>"""
import json
import os
import random
import sys

import jsonrpclib
import jsonrpclib.config
from jsonrpclib import jsonrpc
from harness import netpeer

LOW = {"x-a": "x-a", "X-A": "x-a", "x-A": "x-a", "x-b": "x-b", "X-B": "x-b", "Content-Length": "content-length",
       "CONTENT-type": "content-type", "User-Agent": "user-agent", "user-AGENT": "user-agent", "Host": "host", "hOST": "host"}
DICTS = {"e": [], "a1": [["x-a", "1"]], "A2": [["X-A", "2"]], "a3": [["x-A", "3"]], "b1": [["x-b", "1"]],
         "ab": [["X-A", "4"], ["X-B", "5"]], "cl": [["Content-Length", "0"], ["x-b", "6"]], "ct": [["CONTENT-type", "text/evil"]],
         "ua": [["User-Agent", "ua1"]], "UA": [["user-AGENT", "ua2"], ["x-a", "7"]],
         "ho": [["Host", "backend.internal"]], "HO": [["hOST", "second.internal"], ["x-b", "8"]], "t1": [["x-a", "True"]]}


class Boom(Exception):
    pass


def mkdict(did, rnd):
    d = {}
    for n, v in DICTS[did]:
        # (values are whatever objects the application has: integers and truth values are sent as their str())
        d[n] = True if v == "True" else int(v) if v.isdigit() and rnd.random() < 0.6 else v
    return d


def ident(real, made):
    """Maps the transport's real stack (list of dict objects) back to catalogue ids, by identity then content."""
    out = []
    for d in real:
        hit = [i for (i, obj) in made if obj is d]
        if not hit:
            hit = [i for (i, obj) in made if obj == d]
        out.append(hit[-1] if hit else "?")
    return out


def run_history(h, peer, rnd, cfg):
    made = []
    reuse = rnd.random() < 0.7
    init = mkdict(h[0], rnd)
    made.append((h[0], init))
    url = peer.url()
    if url.startswith("http://") and (rnd.random() < 0.35 or os.environ.get("VERIF_FORCE_CRED")):
        url = "http://user%d:secret@" % rnd.randint(0, 9) + url[len("http://"):]       # (credentials: the connection adds Authorization)
    proxy = jsonrpc.ServerProxy(url, headers=init, config=cfg, version=rnd.choice([1.0, 2.0]))
    tr = proxy("transport")
    cms = []
    ev = []
    for e in h[1:]:
        k = e[0]
        rec = {"k": k, "d": e[1] if k == "enter" else "", "sent": {"-": []}, "bodylen": "", "ctype": cfg.content_type,
               "ua": cfg.user_agent, "err": ""}
        n0 = len(peer.requests)
        try:
            if k == "enter":
                # the same dictionary OBJECT is often handed in again (a module-level constant of the application)
                again = [obj for (i, obj) in made if i == e[1]]
                d = again[-1] if again and reuse else mkdict(e[1], rnd)
                made.append((e[1], d))
                cm = proxy._additional_headers(d)
                cm.__enter__()
                cms.append(cm)
            elif k == "exitN":
                cms.pop().__exit__(None, None, None)
            elif k == "exitE":
                ex = Boom("inside the block")
                try:
                    cms.pop().__exit__(Boom, ex, None)
                except Boom:
                    pass
            elif k == "close":
                proxy("close")()
            elif k == "call":
                proxy.ping(1, "é")
            elif k == "notify":
                proxy._notify.ping(1)
            else:
                mc = jsonrpc.MultiCall(proxy)
                mc.ping(1)
                mc._notify.pong()
                mc()
        except Exception as x:  # noqa
            rec["err"] = "%s: %s" % (type(x).__name__, str(x)[:80])
        if k in ("call", "notify", "batch"):
            reqs = peer.requests[n0:]
            if len(reqs) != 1:
                rec["err"] = rec["err"] or "peer saw %d requests" % len(reqs)
            else:
                sent = {}
                for n, v in reqs[0]["headers"]:
                    sent.setdefault(n.lower(), []).append(v)
                sent["-"] = []
                rec["sent"] = sent
                rec["bodylen"] = str(len(reqs[0]["body"]))
        rec["stack"] = ident(tr.additional_headers, made)
        ev.append(rec)
    try:
        proxy("close")()
    except Exception:  # noqa
        pass
    return {"init": h[0], "ev": ev, "low": LOW, "dicts": {k: v for k, v in DICTS.items()}}


if __name__ == "__main__":
    import socket as _socket
    _socket.setdefaulttimeout(20)        # a peer (or a changed library) that never answers ends a call with an error, not a hang
    hs = json.load(open(sys.argv[2]))
    out, seed, kind, rundir = sys.argv[3], int(sys.argv[4]), sys.argv[5], sys.argv[6]
    rnd = random.Random(seed)
    peer = netpeer.RecordingPeer(unix_path=(rundir + "/peer%d.sock" % seed) if kind == "unix" else None)
    cfg = jsonrpclib.config.Config(user_agent="verif-agent/1.0", content_type=rnd.choice(["application/json-rpc", "application/json"]))
    traces = [run_history(h["h"], peer, rnd, cfg) for h in hs]
    peer.close()
    json.dump(traces, open(out, "w"))
    print(len(traces))
