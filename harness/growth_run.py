"""Spec growth beyond the listed properties: History as a state machine, isbatch / isnotification as decision
functions.  run <history_out.json> <pred_out.json> <seed> <n>"""
import json
import random
import sys

from jsonrpclib.history import History
from jsonrpclib import jsonrpc


def hist_traces(rnd, n):
    out = []
    for _ in range(n):
        h = History()
        ev = []
        for _ in range(rnd.randint(0, 9)):
            op = rnd.choice(["add_request", "add_request", "add_response", "add_response", "clear"])
            x = rnd.choice(["a", "b", "c", "none-like", ""])
            if op == "add_request":
                h.add_request(x)
            elif op == "add_response":
                h.add_response(x)
            else:
                h.clear()
            ev.append({"op": op, "x": x, "requests": list(h.requests), "responses": list(h.responses),
                       "request": "none" if h.request is None else h.request, "response": "none" if h.response is None else h.response})
        out.append({"ev": ev})
    return out


def pred_cases(rnd, n):
    out = []
    firsts = {"none": None, "dict_nojr": {"id": 1, "method": "m"}, "dict_jr2": {"jsonrpc": rnd.choice(["2.0", 2.0, 2, "2"]), "method": "m"},
              "dict_jr1": {"jsonrpc": rnd.choice(["1.0", 1, 1.5, "0"]), "method": "m"}, "dict_jrbad": {"jsonrpc": rnd.choice(["abc", "", "2.x"])},
              "nondict": rnd.choice([5, "s", [1], None])}
    for top in ("list", "tuple", "dict", "scalar"):
        for fk, fv in firsts.items():
            if top in ("list", "tuple"):
                seq = [] if fk == "none" else [fv, {"jsonrpc": "2.0", "method": "x"}][:rnd.randint(1, 2)]
                req = seq if top == "list" else tuple(seq)
            elif top == "dict":
                req = fv if isinstance(fv, dict) else {"jsonrpc": "2.0"}
            else:
                req = rnd.choice([5, "str", None, True])
            try:
                o = "true" if jsonrpc.isbatch(req) else "false"
            except jsonrpc.ProtocolError:
                o = "ProtocolError"
            except BaseException as e:  # noqa
                o = "raised:" + type(e).__name__
            out.append({"fn": "isbatch", "top": top, "first": fk if top in ("list", "tuple") else "none", "idk": "-", "out": o, "repr": repr(req)[:80]})
    for idk, d in (("absent", {"method": "m"}), ("null", {"id": None}), ("zero", {"id": 0}), ("empty", {"id": ""}), ("str", {"id": "x"})):
        try:
            o = "true" if jsonrpc.isnotification(dict(d)) else "false"
        except BaseException as e:  # noqa
            o = "raised:" + type(e).__name__
        out.append({"fn": "isnotification", "top": "-", "first": "-", "idk": idk, "out": o, "repr": repr(d)})
    return out


if __name__ == "__main__":
    rnd = random.Random(int(sys.argv[3]))
    json.dump(hist_traces(rnd, int(sys.argv[4])), open(sys.argv[1], "w"))
    json.dump(pred_cases(rnd, int(sys.argv[4])), open(sys.argv[2], "w"))
    print("ok")
