"""Spec growth (FaultObj.tla): random response() / dump() words on a real jsonrpclib.Fault.
  run <out.json> <seed> <n>"""
import json
import random
import sys

import jsonrpclib
import jsonrpclib.config

IDS = {"none": None, "zero": 0, "empty": "", "i1": "id-one", "i2": 42}
BACK = {None: "none", "id-one": "i1", 42: "i2"}


def idname(v):
    if v is None:
        return "none"
    if v == "" and isinstance(v, str):
        return "empty"
    if v == 0 and not isinstance(v, bool) and not isinstance(v, str):
        return "zero"
    return {"id-one": "i1", 42: "i2"}.get(v, "other")


def run_word(rnd, length):
    cfgver = rnd.choice(["1", "2"])
    cfg = jsonrpclib.config.Config(version=float(cfgver))
    rid0 = rnd.choice(list(IDS))
    data = rnd.choice([None, {"k": 1}, "d"])
    f = jsonrpclib.Fault(-32050, "msg", rpcid=IDS[rid0], config=cfg, data=data)
    err0 = f.error()
    ev = []
    for _ in range(length):
        r, v = rnd.choice(list(IDS)), rnd.choice(["unset", "1", "2"])
        kw = {"rpcid": IDS[r]}
        if v != "unset":
            kw["version"] = float(v)
        m = rnd.choice(["response", "dump"])
        o = getattr(f, m)(**kw)
        d = json.loads(o) if m == "response" else o
        ev.append({"r": r, "v": v, "m": m, "id": idname(d.get("id", "<absent>")), "form": "2" if "jsonrpc" in d else "1",
                   "rid": idname(f.rpcid), "errsame": f.error() == err0 and d["error"]["code"] == -32050, "cfgsame": cfg.version == float(cfgver)})
    return {"rid0": rid0, "cfgver": cfgver, "ev": ev}


if __name__ == "__main__":
    out, seed, n = sys.argv[2], int(sys.argv[3]), int(sys.argv[4])
    rnd = random.Random(seed)
    json.dump([run_word(rnd, rnd.randint(1, 6)) for _ in range(n)], open(out, "w"))
    print(n)
