"""C04, client side: a notification call returns None (plain proxy, dotted name, MultiCall notification), whatever
the server answers (nothing, or - wrongly - something)."""
import json
import random
import sys

from jsonrpclib import jsonrpc
import jsonrpclib.config
from harness.values import enc
from harness.errorcheck_run import Loop


def main(out, seed, n):
    rnd = random.Random(seed)
    recs = []
    for _ in range(n):
        ver = rnd.choice([1.0, 2.0])
        style = rnd.choice(["plain", "dotted", "kwargs", "noargs"])
        cfg = jsonrpclib.config.Config(version=ver, use_jsonclass=rnd.random() < 0.5)
        p = jsonrpc.ServerProxy("http://loop/", transport=Loop(""), version=ver, config=cfg)
        try:
            if style == "plain":
                ret = p._notify.ping(1, "a")
            elif style == "dotted":
                ret = p._notify.a.b.c([1])
            elif style == "kwargs":
                ret = p._notify.ping(x=1)
            else:
                ret = p._notify.ping()
            r = enc(ret)
        except BaseException as e:  # noqa
            r = {"k": "raised:" + type(e).__name__, "a": "", "items": [], "keys": [], "cls": ""}
        recs.append({"style": style, "desc": "version %s %s notification" % (ver, style), "ret": r})
    json.dump(recs, open(out, "w"))
    print(len(recs))


if __name__ == "__main__":
    main(sys.argv[1], int(sys.argv[2]), int(sys.argv[3]))
