"""C04, client side: a notification call returns None (plain proxy, dotted name, MultiCall notification), whatever
the server answers (nothing, or - wrongly - something)."""
import json
import random
import sys

from jsonrpclib import jsonrpc
import jsonrpclib.config
from harness.values import enc
from harness.errorcheck_run import Loop


def main(out, seed, n):
    rnd = random.Random(seed)
    recs = []
    for _ in range(n):
        ver = rnd.choice([1.0, 2.0])
        style = rnd.choice(["plain", "dotted", "kwargs", "noargs"])
        cfg = jsonrpclib.config.Config(version=ver, use_jsonclass=rnd.random() < 0.5)
        p = jsonrpc.ServerProxy("http://loop/", transport=Loop(""), version=ver, config=cfg)
        try:
            if style == "plain":
                ret = p._notify.ping(1, "a")
            elif style == "dotted":
                ret = p._notify.a.b.c([1])
            elif style == "kwargs":
                ret = p._notify.ping(x=1)
            else:
                ret = p._notify.ping()
            r = enc(ret)
        except BaseException as e:  # noqa
            r = {"k": "raised:" + type(e).__name__, "a": "", "items": [], "keys": [], "cls": ""}
        recs.append({"style": style, "desc": "version %s %s notification" % (ver, style), "ret": r})
    # histories on one proxy over a real transport: an exchange that goes wrong, then a notification (answered with an
    # empty body, as a server does): the notification call still returns None
    from harness import netpeer
    peer = netpeer.ScriptedPeer()
    try:
        for k in range(max(13, n // 4)):
            fault = ["H", "HC", "CB", "RS", "E4L", "E5L", "E5N", "TR", "E0", "NJ", "S202", "S203", "TRC"][k % 13]
            ver = rnd.choice([1.0, 2.0])
            p = jsonrpc.ServerProxy(peer.url(), version=ver)
            with peer.lock:
                peer.script[:] = [fault] + (["H"] if rnd.random() < 0.3 else []) + ["E0"]
                nbefore = len(peer.script) - 1
            try:
                p.echo("tok-%d" % k)
                if nbefore == 2:
                    p.echo("tok2-%d" % k)
            except BaseException:  # noqa
                pass
            with peer.lock:
                peer.script[:] = ["E0"]
            try:
                r = enc(p._notify.note("n-%d" % k))
            except BaseException as e:  # noqa
                r = {"k": "raised:" + type(e).__name__, "a": "", "items": [], "keys": [], "cls": ""}
            recs.append({"style": "after-" + fault, "desc": "version %s notification after a %s exchange on the same proxy" % (ver, fault), "ret": r})
            try:
                p("close")()
            except BaseException:  # noqa
                pass
    finally:
        peer.down()
    json.dump(recs, open(out, "w"))
    print(len(recs))


if __name__ == "__main__":
    import socket as _socket
    _socket.setdefaulttimeout(10)
    main(sys.argv[1], int(sys.argv[2]), int(sys.argv[3]))
