"""C19 recorder: fault words replayed on one real ServerProxy against the scripted raw-socket peer.
  run <words.json> <out.json> <seed> <tcp|unix> <rundir>
A word is a list of items; every item is applied to one call ('RF' = the peer is down during that call).  After the
word, healthy calls follow.  Per call: outcome (own token / other value / exception class + TransportError fields),
whether the transport held an unread response before the call, what the peer saw."""
import json
import random
import sys

import jsonrpclib
import jsonrpclib.config
from jsonrpclib import jsonrpc
from harness import netpeer
from harness.values import enc

TAIL = 3


def unread(proxy):
    try:
        conn = proxy("transport")._connection[1]
    except Exception:  # noqa
        return False
    if conn is None:
        return False
    r = getattr(conn, "_HTTPConnection__response", None)
    try:
        return r is not None and not r.isclosed()
    except Exception:  # noqa
        return False


def run_word(word, peer, rnd, counter):
    ver = rnd.choice([1.0, 2.0])
    from jsonrpclib.history import History
    proxy = jsonrpc.ServerProxy(peer.url(), version=ver, history=History() if rnd.random() < 0.5 or len(word) > 10 else None)
    calls = []
    items = list(word) + ["H"] * TAIL
    with peer.lock:
        peer.script[:] = []
        del peer.log[:]
    for it in items:
        counter[0] += 1
        token = "tok-%d" % counter[0]
        rec = {"item": it, "token": token, "unread_before": unread(proxy), "kind": "", "val": "", "errcode": 0, "url": "", "exc": ""}
        n0 = len(peer.log)
        if it == "RF":
            peer.down()
        else:
            with peer.lock:
                peer.script[:] = [it]
        try:
            v = proxy.echo(token)
            rec["kind"] = "return"
            rec["val"] = v if isinstance(v, str) else json.dumps(v)
        except jsonrpc.TransportError as e:
            rec.update(kind="TransportError", errcode=e.errcode if isinstance(e.errcode, int) else -1, url=str(e.url), exc="TransportError")
        except BaseException as e:  # noqa
            rec.update(kind="raise", exc=type(e).__name__)
        if rec["unread_before"] or rec["exc"] in ("ResponseNotReady", "CannotSendRequest"):
            # the request may have been sent without anybody waiting for the reply: let the peer consume it (and its
            # script item) before the next call installs its own item
            import time
            for _ in range(20):
                with peer.lock:
                    if len(peer.log) > n0:
                        break
                time.sleep(0.005)
        if it == "RF":
            peer.up()
        with peer.lock:
            seen = peer.log[n0:]
            peer.script[:] = []
        rec["peer"] = [[str(t), i] for (t, i) in seen]
        rec["own_seen"] = sum(1 for (t, i) in seen if t == token)
        rec["last_item"] = seen[-1][1] if seen else "-"
        rec["last_token_own"] = bool(seen) and seen[-1][0] == token
        calls.append(rec)
    try:
        proxy("close")()
    except BaseException:  # noqa
        pass
    exp_url = ("127.0.0.1:%d/rpc" % peer.port) if not peer.unix_path else None
    return {"word": list(word), "calls": calls, "url": exp_url or "", "unix": bool(peer.unix_path), "tail": TAIL}


if __name__ == "__main__":
    import socket as _socket
    _socket.setdefaulttimeout(20)        # a peer (or a changed library) that never answers ends a call with an error, not a hang
    words = json.load(open(sys.argv[2]))
    out, seed, kind, rundir = sys.argv[3], int(sys.argv[4]), sys.argv[5], sys.argv[6]
    rnd = random.Random(seed)
    peer = netpeer.ScriptedPeer(unix_path=(rundir + "/sp%d.sock" % seed) if kind == "unix" else None)
    counter = [seed * 100000]
    recs = [run_word(w["w"], peer, rnd, counter) for w in words]
    peer.down()
    json.dump(recs, open(out, "w"))
    print(len(recs))
