"""Helpers for the input-quantified properties (DESIGN 4.7): TLC enumerates an abstract domain and prints the cases,
the harness concretises them against the real code, TLC judges the concrete records."""
import json
import re

from harness import common
from harness.common import MachineryError


def enumerate_cases(ctx, module, cfg=None, workers=8, timeout=900):
    """Model run: TLC checks the model clauses on every abstract case and prints each case as a JSON string."""
    r = ctx.model(module, cfg, workers=workers, timeout=timeout)
    cases, seen = [], set()
    for line in r.out.splitlines():
        if line.startswith('"{') or line.startswith('"['):
            try:
                s = json.loads(line)
            except ValueError:
                continue
            if s in seen:
                continue
            seen.add(s)
            cases.append(json.loads(s))
    if not cases:
        raise MachineryError("model %s printed no case:\n%s" % (module, r.out[-1500:]))
    return cases


def judge(ctx, module, cases_file, cfg=None, timeout=1500, heap="6g", env=None):
    """Returns (fails, drifts): dicts index(1-based) -> set of names."""
    e = {"CASES_FILE": cases_file}
    e.update(env or {})
    r = common.tlc(module, cfg, env=e, workers=2, timeout=timeout, heap=heap)
    if r.errors or not r.finished:
        brief = "\n".join(l for l in r.out.splitlines() if not re.match(r"^(Parsing|Semantic|Linting|\d+\. Line)", l))
        raise MachineryError("judge %s did not complete:\n%s" % (module, brief[-2500:]))
    fails, drifts = {}, {}
    for m in re.finditer(r'<<"(PROPFAIL|DRIFT)", (\d+), "([^"]*)">>', r.out):
        (fails if m.group(1) == "PROPFAIL" else drifts).setdefault(int(m.group(2)), set()).add(m.group(3))
    ctx.cov["transitions"] += r.generated
    ctx.cov["judge_states"] = ctx.cov.get("judge_states", 0) + r.distinct
    return fails, drifts
