#!/usr/bin/env python3
"""tools_store_seed.py <prop> <A..H> <needs> <detected_by> : copies /tmp/seed_out/<prop>/<X> to /verif/seeded/<prop>-<X> with meta.json"""
import json, os, shutil, subprocess, sys
prop, x, needs, det = sys.argv[1:5]
src = "/tmp/seed_out/%s/%s" % (prop, x); dst = "/verif/seeded/%s-%s" % (prop, x)
os.makedirs(dst, exist_ok=True)
for f in ("patch.diff", "demo.py", "notes.md"):
    if os.path.exists(src + "/" + f): shutil.copy(src + "/" + f, dst + "/" + f)
head = subprocess.check_output(["git", "-C", "/repo", "rev-parse", "--short", "HEAD"], universal_newlines=True).strip()
json.dump({"property": prop, "origin": "independent sub-agent (given only the property text and a scratch worktree)", "confirmed_on": head,
           "needs_to_manifest": needs, "confirmed": "tools_confirm_seed.sh: patch applies, the 62 stable tests pass with it, demo.py exits 1 with it and 0 without",
           "detected_by": det}, open(dst + "/meta.json", "w"), indent=1)
print("stored", dst)
