--------------------------- MODULE ImportRaceJudge ---------------------------
(* C07, classes named by module path: load() of a dumped bean yields an instance of the same class with equal fields -  *)
(* also for the thread that asks while another thread's load() is still importing the module of that class.           *)
EXTENDS Naturals, Sequences, TLC, Json, IOUtils
Cases == JsonDeserialize(IOEnv.CASES_FILE)
VARIABLE i
Init == i \in 1..Len(Cases)
Next == UNCHANGED i
Spec == Init /\ [][Next]_i
R == Cases[i]
BothLoad == R.t1 = "ok" /\ R.t2 = "ok"
Monitor == BothLoad \/ PrintT(<<"PROPFAIL", i, "RoundTripDuringImport">>)
=============================================================================
