---- MODULE MC_HttpLayer ----
(* model run: every request class through the step machine; the initial states are printed as cases for the harness *)
EXTENDS HttpLayer, Json
Emit == pc = "method" => PrintT(ToJson([req |-> req, expect |-> Respond(req)]))
====
