SPECIFICATION Spec
INVARIANT Monitor
CHECK_DEADLOCK FALSE
