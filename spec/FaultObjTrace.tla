----------------------------- MODULE FaultObjTrace -----------------------------
(* response() / dump() words on a real Fault object replayed as FaultObj.tla actions *)
EXTENDS FaultObj, Json, IOUtils, TLCExt
Traces == JsonDeserialize(IOEnv.TRACE_FILE)
VARIABLES tid, l
T == Traces[tid]
E == T.ev[l]
TInit == tid \in 1..Len(Traces) /\ l = 1 /\ rid = T.rid0 /\ cfgver = T.cfgver /\ nops = 0 /\ out = [id |-> "-", form |-> "-"]
TNext == l <= Len(T.ev) /\ Emit(E.r, E.v) /\ l' = l + 1 /\ tid' = tid
TSpec == TInit /\ [][TNext]_<<vars, tid, l>>
P == T.ev[l - 1]
AsSpecified == l = 1 \/ (P.id = out.id /\ P.form = out.form /\ P.rid = rid /\ P.errsame /\ P.cfgsame)
Monitor == AsSpecified \/ PrintT(<<"GROWTHFAIL", tid, "FaultObj", l - 1>>)
=============================================================================
