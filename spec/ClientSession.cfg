SPECIFICATION Spec
CONSTANTS
  MaxOps = 6
  MaxJobs = 3
INVARIANT TypeOK
INVARIANT HistoryMatchesWire
INVARIANT NoEmptyBatch
INVARIANT ResponsesMissingOnlyForFaults
PROPERTY WireAppendOnly
PROPERTY JobsOnlySurviveFailure
PROPERTY RaiseIffFault
CHECK_DEADLOCK FALSE
INVARIANT OpenedBounded
