SPECIFICATION SpecLost
CONSTANTS
  NW = 4
  NC = 2
  Tasks <- T3
  MCGated <- G3
  MaxOps <- Ops2_22
  WithClear = FALSE
  FixJoin = TRUE
  FixGrow = TRUE
  FixStart = TRUE
INVARIANT NotStranded
INVARIANT MaxRunning
INVARIANT CountersSane
CHECK_DEADLOCK FALSE
