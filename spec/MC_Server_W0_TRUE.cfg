SPECIFICATION Spec
CONSTANTS
  Clients <- C2
  Workers <- W0
  Words <- LifeWords
  FixClose = TRUE
  defaultInitValue = 0
INVARIANT OwnReply
INVARIANT ExecAtMostOnce
INVARIANT AnsweredMeansExecuted
INVARIANT SocketClosedAfter
PROPERTY CloseTerminates
CHECK_DEADLOCK FALSE
