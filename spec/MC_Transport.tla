---- MODULE MC_Transport ----
EXTENDS Transport, Json
Emit == done > 0 \/ PrintT(ToJson([w |-> word]))
====
