------------------------------ MODULE PoolCtor ------------------------------
(* C10, constructor contract: ThreadPool(max_threads, min_threads) as a function over argument classes.   *)
(* Model: IntOf mirrors Python's int() on the classes the harness concretises; the property CtorContract  *)
(* is evaluated by TLC on every recorded construction of the real class.                                   *)
EXTENDS Naturals, Integers, Sequences, TLC, Json, IOUtils
Cases == JsonDeserialize(IOEnv.CASES_FILE)
\* an argument is described by the harness as [cls, iv]: cls in {"int","float","intstr","badstr","none","bool","other"};
\* iv = the value int() yields (meaningful for int / float / intstr / bool), as a decimal string with sign
Numeric(a) == a.cls \in {"int", "float", "intstr", "bool"}
ToInt(s) == LET d == [c \in {"0","1","2","3","4","5","6","7","8","9"} |->
                      CASE c = "0" -> 0 [] c = "1" -> 1 [] c = "2" -> 2 [] c = "3" -> 3 [] c = "4" -> 4
                        [] c = "5" -> 5 [] c = "6" -> 6 [] c = "7" -> 7 [] c = "8" -> 8 [] c = "9" -> 9]
            IN d
\* the harness passes small magnitudes as JSON numbers (|iv| <= 1000), so TLC can compare them
Expected(mx, mn) ==
  IF ~Numeric(mx) \/ mx.iv < 1 THEN [kind |-> "reject", max |-> 0, min |-> 0]
  ELSE IF ~Numeric(mn) THEN [kind |-> "reject", max |-> 0, min |-> 0]
  ELSE [kind |-> "ok", max |-> mx.iv,
        min |-> IF mn.iv < 0 THEN 0 ELSE IF mn.iv > mx.iv THEN mx.iv ELSE mn.iv]
VARIABLE i
Init == i \in 1..Len(Cases)
Next == UNCHANGED i
Spec == Init /\ [][Next]_i
C == Cases[i]
\* rejected = ValueError raised, nothing else; accepted = the pool reports the clamped sizes
CtorContract == LET e == Expected(C.mx, C.mn) IN
                IF e.kind = "reject" THEN C.out.kind = "ValueError"
                ELSE C.out.kind = "ok" /\ C.out.max = e.max /\ C.out.min = e.min
Monitor == CtorContract \/ PrintT(<<"PROPFAIL", i, "CtorContract">>)
\* the model itself: over the whole abstract domain the expectation is well defined and within bounds
ModelOK == LET e == Expected(C.mx, C.mn) IN e.kind = "ok" => (e.max >= 1 /\ e.min >= 0 /\ e.min <= e.max)
=============================================================================
