SPECIFICATION JSpec
INVARIANT Monitor
CHECK_DEADLOCK FALSE
