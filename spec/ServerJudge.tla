------------------------------ MODULE ServerJudge ------------------------------
(* C12 judge (transport / life-cycle tier): predicates on recorded life-cycle words of real servers on real        *)
(* listeners with concurrent clients.                                                                               *)
EXTENDS Naturals, Integers, Sequences, FiniteSets, TLC, Json, IOUtils
Cases == JsonDeserialize(IOEnv.CASES_FILE)
VARIABLE i
Init == i \in 1..Len(Cases)
Next == UNCHANGED i
Spec == Init /\ [][Next]_i
R == Cases[i]
\* stopping a server always terminates (shutdown() while serving, server_close() in every history of the property)
CloseTerminates == \A k \in 1..Len(R.calls) : R.calls[k].returned /\ R.calls[k].exc = ""
\* every request is answered with the response to that very request; a malformed request or failing method on a
\* connection does not prevent later requests from being served
OwnReply == \A k \in 1..Len(R.replies) : LET c == R.replies[k] IN c.done /\ c.status = "ok" /\ c.result = c.token
\* no lost or duplicated executions
ExecOnce == \A k \in 1..Len(R.replies) : LET c == R.replies[k] IN
              /\ c.execs = 1
              /\ (c.kind = "batch" => c.execs2 = 1) /\ (c.kind = "notify" => c.note = 1) /\ (c.kind \in {"fail", "failhard"} => c.boom = 1)
              /\ (c.kind = "rawid" => c.restricted = 3)
SocketClosedAfter == R.closed => R.fileno = -1
PoolWorkersDieAfter == R.closed => R.alive_workers = <<>>
Flag(name) == PrintT(<<"PROPFAIL", i, name>>)
Monitor == /\ CloseTerminates \/ Flag("CloseTerminates")
           /\ OwnReply \/ Flag("OwnReply")
           /\ ExecOnce \/ Flag("ExecOnce")
           /\ SocketClosedAfter \/ Flag("SocketClosedAfter")
           /\ PoolWorkersDieAfter \/ Flag("PoolWorkersDieAfter")
=============================================================================
