---- MODULE MC_JsonClassNames ----
EXTENDS JsonClassNames, Json
CONSTANT MaxLen
VARIABLES w, dk
Words == UNION {[1..n -> Alphabet] : n \in 0..MaxLen}
Init == w \in Words /\ dk \in DescK
Next == UNCHANGED <<w, dk>>
Spec == Init /\ [][Next]_<<w, dk>>
\* clauses on the model
EmptyInvalid == w = <<>> => ~ValidName(w)
AnyForeignCharInvalid == (\E i \in 1..Len(w) : w[i] \notin Allowed) => ~ValidName(w)
InvalidNeverImports == (~ValidName(w) /\ dk # "nonlist") => Expect(w, dk) \in {"reject_noimport", "translationerror_noimport"}
Emit == dk # "wellformed_list" \/ PrintT(ToJson([w |-> w]))
====
