---- MODULE MC_HeadersTrace ----
EXTENDS HeadersTrace
TLow == Traces[1].low
TDicts == Traces[1].dicts
====
