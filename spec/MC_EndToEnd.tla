---- MODULE MC_EndToEnd ----
EXTENDS EndToEnd, Json
VARIABLES style, vc, vs, leg, jc, argc, retc
vars == <<style, vc, vs, leg, jc, argc, retc>>
Init == style \in Styles /\ vc \in Versions /\ vs \in Versions /\ leg \in Legs /\ jc \in BOOLEAN /\ argc \in ValueClasses /\ retc \in ValueClasses
Next == UNCHANGED vars
Spec == Init /\ [][Next]_vars
\* MultiCall always speaks 2.0 (the library's batch implementation): the model keeps the client version for the call styles only
Emit == PrintT(ToJson([style |-> style, vc |-> vc, vs |-> vs, leg |-> leg, jc |-> jc, argc |-> argc, retc |-> retc]))
====
