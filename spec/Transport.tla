------------------------------ MODULE Transport ------------------------------
(***************************************************************************)
(* C19: one ServerProxy (cached keep-alive connection, the retry loop       *)
(* inherited from xmlrpc.client.Transport.request, single_request of        *)
(* jsonrpclib) against a peer that treats each call according to a fault    *)
(* item.  State: the cached connection ("none" | "open" | "unread" = a      *)
(* response object that was never read is still attached to it).            *)
(***************************************************************************)
EXTENDS TransportOps
CONSTANTS MaxLen, NTail
VARIABLES conn, word, done, fails_in_tail
vars == <<conn, word, done, fails_in_tail>>
Words == UNION {[1..n -> Items] : n \in 0..MaxLen}
Init == conn = "none" /\ word \in Words /\ done = 0 /\ fails_in_tail = 0
Call == /\ done < Len(word) + NTail
        /\ LET it == IF done < Len(word) THEN word[done + 1] ELSE "H"
               r == Outcome(conn, it)
           IN /\ conn' = r.conn
              /\ fails_in_tail' = IF done >= Len(word) /\ r.o # "own" THEN fails_in_tail + 1 ELSE fails_in_tail
        /\ done' = done + 1 /\ UNCHANGED word
Next == Call
Spec == Init /\ [][Next]_vars /\ WF_vars(Next)
\* C19 on the model: once the faults stop, at most one further call fails, then healthy exchanges succeed
Recovers == fails_in_tail <= 1
HealthyAtEnd == <>(done = Len(word) + NTail /\ conn = "open")
=============================================================================
