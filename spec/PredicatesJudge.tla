---------------------------- MODULE PredicatesJudge ----------------------------
EXTENDS Naturals, Sequences, FiniteSets, TLC, Json, IOUtils
Cases == JsonDeserialize(IOEnv.CASES_FILE)
VARIABLE i
Init == i \in 1..Len(Cases)
Next == UNCHANGED i
Spec == Init /\ [][Next]_i
R == Cases[i]
IsBatch(top, first) == IF top \notin {"list", "tuple"} \/ first \in {"none", "nondict", "dict_nojr"} THEN "false"
                       ELSE IF first = "dict_jrbad" THEN "ProtocolError"
                       ELSE IF first = "dict_jr1" THEN "false" ELSE "true"
IsNotification(idk) == IF idk \in {"absent", "null"} THEN "true" ELSE "false"
Monitor == /\ (R.fn = "isbatch" => R.out = IsBatch(R.top, R.first)) \/ PrintT(<<"GROWTHFAIL", i, "isbatch", 0>>)
           /\ (R.fn = "isnotification" => R.out = IsNotification(R.idk)) \/ PrintT(<<"GROWTHFAIL", i, "isnotification", 0>>)
=============================================================================
