SPECIFICATION Spec
CONSTANTS
  MaxChars = 4
  MaxRead = 4
  DecodeOnce = FALSE
INVARIANT ReassemblyIndependent
PROPERTY Terminates
CHECK_DEADLOCK FALSE
