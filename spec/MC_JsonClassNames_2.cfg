SPECIFICATION Spec
CONSTANT MaxLen = 2
INVARIANT EmptyInvalid
INVARIANT AnyForeignCharInvalid
INVARIANT InvalidNeverImports
INVARIANT Emit
CHECK_DEADLOCK FALSE
