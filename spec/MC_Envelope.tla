---- MODULE MC_Envelope ----
(* model run: enumerate the abstract domain, check the model against the statement's clauses, print the cases *)
EXTENDS Envelope, Json
VARIABLES m, p, id, v, cv, resp, notify
vars == <<m, p, id, v, cv, resp, notify>>
C == [m |-> m, p |-> p, id |-> id, v |-> v, cv |-> cv, resp |-> resp, notify |-> notify]
Init == m \in MethodC /\ p \in ParamsC /\ id \in IdC /\ v \in VerC /\ cv \in CfgVerC /\ resp \in BOOLEAN /\ notify \in BOOLEAN
Next == UNCHANGED vars
Spec == Init /\ [][Next]_vars
E == Expect(C)
\* the clauses of C14 read off the model (they must hold for every case of the domain)
Req2 == (E.kind = "request" /\ Ver(C) = 2) => ({"jsonrpc", "method", "id"} \subseteq E.members /\ ("params" \in E.members <=> NonEmptyParams(C)))
Notif2NoId == (E.kind = "notification" /\ Ver(C) = 2) => "id" \notin E.members
Req1 == (E.kind \in {"request", "notification"} /\ Ver(C) = 1) => ("params" \in E.members /\ "jsonrpc" \notin E.members)
Notif1NullId == (E.kind = "notification" /\ Ver(C) = 1) => E.id = "null"
SuppliedIdVerbatim == (E.kind = "request" /\ IdUsable(C)) => E.id = "verbatim"
OtherwiseFresh == (E.kind = "request" /\ ~IdUsable(C)) => E.id = "fresh"
ResponseNeedsId == (C.resp /\ ~IsFault(C) /\ C.id = "none" /\ ~(MethodIsStr(C) /\ ~ValidParams(C))) => E.kind = "raise"
InvalidRaise == /\ (~C.resp /\ ~MethodIsStr(C) /\ ~IsFault(C)) => E.kind = "raise"
                /\ (MethodIsStr(C) /\ P(C) \in {"int", "str"}) => E.kind = "raise"
Emit == PrintT(ToJson([c |-> C, judged |-> Judged(C)]))
====
