------------------------- MODULE ThreadPoolTrace -------------------------
(* Stage A (conformance): is a trace recorded from the real ThreadPool a behaviour of ThreadPool.tla ?   *)
(* One TLC run validates a whole batch (tid); the action is inferred by TLC from the thread id and the    *)
(* logged post-state; spec steps without an event of their own are bounded silent steps (DESIGN 4.4).     *)
EXTENDS ThreadPool, Json, IOUtils, TLCExt

Traces == JsonDeserialize(IOEnv.TRACE_FILE)

VARIABLES tid, l, sil
tvars == <<vars, tid, l, sil>>

T == Traces[tid]
E == T.ev[l]
ToSet(s) == {s[i] : i \in 1..Len(s)}

TInit == /\ tid \in 1..Len(Traces)
         /\ l = 1 /\ sil = 0
         /\ InitWithCap(Traces[tid].cfg.maxT, Traces[tid].cfg.minT, ToSet(Traces[tid].cfg.gated), Traces[tid].cfg.qcap)
         /\ TLCSet(tid, 1)

\* always comparable
PostFree == /\ stop' = E.st.stop
            /\ q' = E.st.q
            /\ unfinished' = E.st.unfinished
            /\ \A t \in Tasks : ts'[t] = IF t <= Len(E.st.ts) THEN E.st.ts[t] ELSE "new"
            /\ {w \in W : wpc'[w] \notin {"unborn", "dead"}} = ToSet(E.st.alive)
\* protected by the pool lock: comparable when the lock is released (or at Thread.start)
PostLocked == /\ nbT' = E.st.nbT /\ nbA' = E.st.nbA /\ nbP' = E.st.nbP
              /\ (E.k = "unlock" => tlist' = ToSet(E.st.tlist))

MayStutter == {"thread_join", "ret", "cond_wait", "qget_nowait_empty", "fut_is_set",
               "fut_wait", "obs_done", "obs_result", "other_unlock"}
IsClient(x) == x > 100 /\ x < 200
OpOf(o) == IF Len(o) = 2 THEN <<o[1], o[2]>> ELSE <<o[1]>>

Step == IF IsClient(E.thr)
        THEN LET c == E.thr - 100 IN
             /\ c \in Clients
             /\ IF E.k = "call" THEN Fetch(c, OpOf(E.op)) ELSE ClientStep(c)
        ELSE /\ E.thr \in W
             /\ Worker(E.thr)

Stutter == /\ \/ E.k \in MayStutter
              \/ (E.k = "join_test" /\ IsClient(E.thr) /\ cop[E.thr - 100][1] \in {"stop", "clear"})
           /\ UNCHANGED vars

Consume == /\ l <= Len(T.ev)
           /\ l' = l + 1 /\ tid' = tid /\ sil' = 0
           /\ (Step \/ Stutter)
           /\ PostFree
           /\ (E.k \in {"unlock", "thread_start"} => PostLocked)
           /\ TLCSet(tid, IF TLCGet(tid) > l + 1 THEN TLCGet(tid) ELSE l + 1)

\* client steps that have no event of their own in the implementation
Silent == /\ l <= Len(T.ev) /\ sil < 3
          /\ \E c \in Clients : S4(c) \/ S4w(c) \/ P3(c) \/ P4(c) \/ P5(c) \/ P6(c) \/ (E1(c) /\ ~HasRoom)     \* (the last: acquire, then block in put)
          /\ l' = l /\ tid' = tid /\ sil' = sil + 1

TNext == Consume \/ Silent
TSpec == TInit /\ [][TNext]_tvars

\* property monitors: a failure is reported (once per state) and the search goes on
Flag(name) == PrintT(<<"PROPFAIL", tid, name, l>>)
Monitor == /\ ExactlyOnce \/ Flag("ExactlyOnce")
           /\ MaxRunning \/ Flag("MaxRunning")
           /\ MaxServing \/ Flag("MaxServing")
           /\ MinServing \/ Flag("MinServing")
           /\ WorkersDieAfterStop \/ Flag("WorkersDieAfterStop")
           /\ JoinSound \/ Flag("JoinSound")

Verdicts == \A i \in 1..Len(Traces) : PrintT(<<"VERDICT", i, TLCGet(i) - 1, Len(Traces[i].ev)>>)
=============================================================================
