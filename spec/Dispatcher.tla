------------------------------ MODULE Dispatcher ------------------------------
(* Server side of JSON-RPC in jsonrpclib (SimpleJSONRPCDispatcher): parse -> validate -> (batch loop) ->       *)
(* dispatch -> reply, as decision functions over an abstract request domain.  Used by C02 (well-formed reply,   *)
(* never raises), C03 (id echo, one-to-one, order), C04 (notifications, inline part), C05 (error codes,         *)
(* rejected requests run nothing) and C13 (form of the reply depends only on the request and the server).       *)
EXTENDS Naturals, Integers, Sequences, FiniteSets, TLC

\* ---- abstract request entry:  [obj, jr, idc, mc, pc]
\*  obj : the entry is a JSON object            jr : it has a "jsonrpc" member (any value)
\*  idc : "absent" | "null" | "empty" | "other"  (other = any other JSON value: 0, false, numbers, strings, arrays, objects)
\*  pc  : "absent" | "container" | "other"       (params: list / dict, or anything else)
\*  mc  : method class, see MethodC
MethodC == {"absent", "nonstr", "empty",                       \* structurally invalid
            "ok", "raise", "typeerr", "badarity", "convfail",  \* registered functions
            "retfault",                                        \* a registered function that *returns* its own Fault (code -32050)
            "unknown",                                         \* resolves to nothing
            "inst_pub", "inst_nested",                         \* attributes of the registered instance
            "inst_priv", "inst_nested_priv"}                   \* a segment starts with "_": never resolved
IdC == {"absent", "null", "empty", "other"}
ParamC == {"absent", "container", "other"}
ServerVer == {"1", "2"}
DispatchK == {"default", "custom"}

Valid(e) == /\ e.obj /\ (e.jr \/ e.idc # "absent")
            /\ e.mc \notin {"absent", "nonstr", "empty"}
            /\ e.pc \in {"absent", "container"}
Notif(e) == e.idc \in {"absent", "null", "empty"}

\* error code of the reply (0 = a result), default dispatch through the registry
CodeDefault(mc) == CASE mc \in {"ok", "inst_pub", "inst_nested"} -> {0}
                     [] mc \in {"raise", "convfail"} -> {-32603}
                     [] mc = "retfault" -> {-32050}
                     [] mc = "badarity" -> {-32602}
                     [] mc = "typeerr" -> {-32602, -32603}        \* a TypeError raised inside the body cannot be told apart
                     [] mc \in {"unknown", "inst_priv", "inst_nested_priv"} -> {-32601}
                     [] OTHER -> {-32600}
\* a custom dispatch function decides by itself; the harness' function raises for "raise", returns an
\* unconvertible value for "convfail" and a value otherwise
CodeCustom(mc) == IF mc \in {"raise", "convfail"} THEN {-32603} ELSE IF mc = "retfault" THEN {-32050} ELSE {0}
Code(e, dk) == IF dk = "default" THEN CodeDefault(e.mc) ELSE CodeCustom(e.mc)
\* how often the body of a registered callable (or the custom dispatch function) runs for this entry
Calls(e, dk) == IF ~Valid(e) THEN 0
                ELSE IF dk = "custom" THEN 1
                ELSE IF e.mc \in {"ok", "raise", "typeerr", "convfail", "retfault", "inst_pub", "inst_nested"} THEN 1 ELSE 0

\* expected reply to one entry.  form: "1" | "2" | "any" (invalid entries: the lenient reading of C13)
EntryReply(e, sv, dk) ==
  IF ~Valid(e) THEN [resp |-> TRUE, codes |-> {-32600}, echo |-> e.obj /\ e.idc # "absent", form |-> "any", calls |-> 0]
  ELSE IF Notif(e) THEN [resp |-> FALSE, codes |-> {}, echo |-> FALSE, form |-> "any", calls |-> Calls(e, dk)]
  ELSE [resp |-> TRUE, codes |-> Code(e, dk), echo |-> TRUE, form |-> IF e.jr THEN sv ELSE "1", calls |-> Calls(e, dk)]

\* ---- body level.  bk: "unparseable" | "emptytext" | "falsy" (JSON null / false / 0 / "" / [] / {}) |
\*                       "scalar" (other non-container JSON value) | "object" | "array" (non-empty)
NonEntry == [obj |-> FALSE, jr |-> FALSE, idc |-> "absent", mc |-> "absent", pc |-> "absent"]
SingleError(codes) == <<[resp |-> TRUE, codes |-> codes, echo |-> FALSE, form |-> "any", calls |-> 0]>>
RECURSIVE Replies(_, _, _)
Replies(es, sv, dk) == IF es = <<>> THEN <<>> ELSE <<EntryReply(Head(es), sv, dk)>> \o Replies(Tail(es), sv, dk)
\* expected sequence of per-entry outcomes (including the silent ones) and whether the body is an array
BodyOutcome(bk, es, sv, dk) ==
  CASE bk = "unparseable" -> [array |-> FALSE, per |-> SingleError({-32700})]
    [] bk = "emptytext"   -> [array |-> FALSE, per |-> SingleError({-32600, -32700})]
    [] bk \in {"falsy", "scalar"} -> [array |-> FALSE, per |-> SingleError({-32600})]
    [] bk = "object"      -> [array |-> FALSE, per |-> Replies(es, sv, dk)]
    [] bk = "array"       -> [array |-> TRUE, per |-> Replies(es, sv, dk)]
Answering(per) == SelectSeq(per, LAMBDA r : r.resp)
=============================================================================
