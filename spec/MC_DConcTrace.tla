---- MODULE MC_DConcTrace ----
EXTENDS DConcTrace
TrH == {1, 2, 3}
TrW == {101, 102, 103}
TrK == RequestKinds
====
