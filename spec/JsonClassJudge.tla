---------------------------- MODULE JsonClassJudge ----------------------------
(* Judge for C07 / C15 / C20: predicates on (original, dumped, reloaded) triples recorded from the real          *)
(* jsonclass.dump / load.  The expected dump at every depth is Dump(orig) of JsonClass.tla (the statement of       *)
(* ignore lists, handlers, class naming, field discovery), the expected reload is NormV(orig).                     *)
EXTENDS JsonClass, Json, IOUtils
Cases == JsonDeserialize(IOEnv.CASES_FILE)
VARIABLE i
Init == i \in 1..Len(Cases)
Next == UNCHANGED i
Spec == Init /\ [][Next]_i
R == Cases[i]
CT == R.CT
Cfg == [H |-> Range(R.cfg.H), ign |-> Range(R.cfg.ign)]
\* C15 / C07: dump yields only dicts, lists and primitives
OnlyJsonOut == R.dumped.ok => OnlyJson(R.dumped.v)
DumpSucceeds == R.dumped.ok
\* C20 / C07: the dumped form is what the statement prescribes at every depth (ignored names absent, handler output
\* verbatim and taking precedence, unsupported fields omitted, class named, constructor arguments emitted)
DumpAsSpecified == R.dumped.ok => SameN(Dump(R.orig, Cfg, CT), R.dumped.v)
\* C07 / C15: load(dump(x)) equals x up to container normalisation, objects keep class and fields, primitives keep
\* exact type and value  (not claimed when handlers replaced parts of the structure)
\* C15: what dump() returns is serialisable by the library's JSON backend when every key is a string
BackendSerialisable == (R.dumped.ok /\ R.strkeys) => R.wire_ok
LoadSucceeds == (R.dumped.ok /\ R.wire_ok /\ R.cfg.H = <<>>) => R.loaded.ok
RoundTrip == (R.dumped.ok /\ R.wire_ok /\ R.loaded.ok /\ R.cfg.H = <<>>) => SameN(NormV(R.orig, Cfg, CT), R.loaded.v)
\* conformance of load with the model (given the real dumped value)
LoadAsSpecified == (R.mode \notin {"rpc", "fail"} /\ R.dumped.ok /\ R.wire_ok /\ R.loaded.ok /\ R.cfg.H = <<>>) => SameN(Load(R.loadin, CT), R.loaded.v)
\* C07, RPC path: the remote callable receives, and the caller gets back, the same object
RpcTransparent == R.mode = "rpc" => (R.loaded.ok /\ R.returned.ok /\ SameN(NormV(R.orig, Cfg, CT), R.returned.v))
\* C15: neither dump nor load modifies its argument, whether it succeeds or fails
PureDump == R.orig = R.orig_after
PureLoad == R.loadin = R.loadin_after
Flag(name) == PrintT(<<"PROPFAIL", i, name>>)
Monitor == /\ DumpSucceeds \/ Flag("DumpSucceeds")
           /\ OnlyJsonOut \/ Flag("OnlyJsonOut")
           /\ BackendSerialisable \/ Flag("BackendSerialisable")
           /\ DumpAsSpecified \/ Flag("DumpAsSpecified")
           /\ LoadSucceeds \/ Flag("LoadSucceeds")
           /\ RoundTrip \/ Flag("RoundTrip")
           /\ LoadAsSpecified \/ Flag("LoadAsSpecified")
           /\ PureDump \/ Flag("PureDump")
           /\ PureLoad \/ Flag("PureLoad")
           /\ RpcTransparent \/ Flag("RpcTransparent")
=============================================================================
