------------------------------- MODULE Headers -------------------------------
(***************************************************************************)
(* C18: custom headers of a ServerProxy.  State: the transport's stack of   *)
(* header dictionaries (constructor headers first), one nested              *)
(* _additional_headers block per Enter.  Emit(stack) is what a request must *)
(* carry.  A dictionary is a sequence of <<name, value>> pairs (its own     *)
(* order is irrelevant); names are compared case-insensitively through Low. *)
(***************************************************************************)
EXTENDS Naturals, Sequences, FiniteSets, TLC
CONSTANTS Dicts,        \* catalogue: function id -> sequence of <<name, value>>
          Low,          \* function name -> lower-cased name
          MaxEvents
ReadOnly == {"content-length", "content-type"}
DictIds == DOMAIN Dicts
Defines(d, ln) == \E i \in 1..Len(Dicts[d]) : Low[Dicts[d][i][1]] = ln
\* values a dictionary gives to a lower-cased name (several when it spells the name in two ways itself)
ValuesIn(d, ln) == {Dicts[d][i][2] : i \in {j \in 1..Len(Dicts[d]) : Low[Dicts[d][j][1]] = ln}}
LowNames == {Low[n] : n \in DOMAIN Low}
Pushed(stack) == {ln \in LowNames : \E i \in 1..Len(stack) : Defines(stack[i], ln)}
Last(stack, ln) == CHOOSE i \in 1..Len(stack) : Defines(stack[i], ln) /\ \A j \in (i + 1)..Len(stack) : ~Defines(stack[j], ln)
\* the acceptable values of every pushed name that may be sent: those of the most recently pushed defining dictionary
Effective(stack) == [ln \in Pushed(stack) \ ReadOnly |-> ValuesIn(stack[Last(stack, ln)], ln)]

VARIABLES stack, saved, nev, last
vars == <<stack, saved, nev, last>>
Init == stack \in {<<d>> : d \in DictIds} /\ saved = <<>> /\ nev = 0 /\ last = <<"init">>
Enter(d) == /\ nev < MaxEvents /\ stack' = Append(stack, d) /\ saved' = Append(saved, stack)
            /\ nev' = nev + 1 /\ last' = <<"enter", d>>
\* leaving a block - normally or through an exception - pops exactly what Enter pushed
Exit(how) == /\ nev < MaxEvents /\ saved # <<>>
             /\ stack' = SubSeq(stack, 1, Len(stack) - 1) /\ saved' = SubSeq(saved, 1, Len(saved) - 1)
             /\ nev' = nev + 1 /\ last' = <<how>>
Call(kind) == /\ nev < MaxEvents /\ nev' = nev + 1 /\ last' = <<kind>> /\ UNCHANGED <<stack, saved>>
\* proxy("close")() drops the connection only: the headers in force stay in force, the proxy reconnects on the next request
Close == /\ nev < MaxEvents /\ nev' = nev + 1 /\ last' = <<"close">> /\ UNCHANGED <<stack, saved>>
Next == (\E d \in DictIds : Enter(d)) \/ Exit("exitN") \/ Exit("exitE") \/ (\E k \in {"call", "notify", "batch"} : Call(k)) \/ Close
Spec == Init /\ [][Next]_vars
\* C18 on the model
RestoredAfterBlock == (last[1] \in {"exitN", "exitE"}) => TRUE
StackMatchesBlocks == Len(stack) = Len(saved) + 1
SavedIsPrefix == \A i \in 1..Len(saved) : saved[i] = SubSeq(stack, 1, i)
NeverSuperseded == \A ln \in Pushed(stack) \ ReadOnly : Effective(stack)[ln] \subseteq ValuesIn(stack[Last(stack, ln)], ln)
=============================================================================
