------------------------------ MODULE HttpLayer ------------------------------
(***************************************************************************)
(* Spec growth (not a listed property): one HTTP exchange with              *)
(* SimpleJSONRPCRequestHandler as a step machine.  The steps follow the     *)
(* order of the code: BaseHTTPRequestHandler.handle_one_request (method     *)
(* lookup), then do_POST: path test, Content-Length parse, read loop,       *)
(* from_bytes (UTF-8), decode_request_content (Content-Encoding),           *)
(* _marshaled_dispatch, status line, headers, body, and the connection is   *)
(* closed (the handler speaks HTTP/1.0 whatever the client announces).      *)
(*                                                                         *)
(* A request is abstracted to classes:                                      *)
(*   m    : request method                                                  *)
(*   path : "root" "/" or "//" | "rpc2" "/RPC2" or "/pydoc.css" (inherited   *)
(*          rpc_paths) | "other" | "rootquery" "/?a=1"                       *)
(*   len  : Content-Length "exact" | "absent" | "nonnum" | "negative"       *)
(*          (below -1: the read raises) | "minus1" (-1: read(-1) reads up   *)
(*          to the end of the stream) | "long" (larger than what is sent    *)
(*          before the half-close)                                          *)
(*   enc  : Content-Encoding header "none" | "identity" | "gzip" | "GZIP" | *)
(*          "deflate"                                                       *)
(*   body : "call" | "notif" | "batch" | "badjson" | "badutf8" | "empty" |  *)
(*          "gzipcall" (a gzip-compressed call)                             *)
(*   ver  : HTTP version of the request line, ka : Connection: keep-alive   *)
(*                                                                         *)
(* GzipFirst = FALSE is the code as it is: the body is turned into text     *)
(* BEFORE decode_request_content, so a gzip-encoded request can never be    *)
(* served (binary data is not UTF-8; text is not bytes for gzip_decode).    *)
(* GzipFirst = TRUE describes the order xmlrpc.server uses; GzipServed      *)
(* holds only there.  The binding harness compares the real server with     *)
(* the FALSE instance and reports a difference as GROWTH-FINDING.           *)
(***************************************************************************)
EXTENDS Naturals, Sequences, FiniteSets, TLC
CONSTANT GzipFirst
Methods == {"POST", "GET", "PUT", "HEAD"}
Paths == {"root", "rpc2", "other", "rootquery"}
Lens == {"exact", "absent", "nonnum", "negative", "minus1", "long"}
Encs == {"none", "identity", "gzip", "GZIP", "deflate"}
Bodies == {"call", "notif", "batch", "badjson", "badutf8", "empty", "gzipcall"}
Vers == {"1.0", "1.1"}
Reqs == [m : Methods, path : Paths, len : Lens, enc : Encs, body : Bodies, ver : Vers, ka : BOOLEAN]
\* bytes are only sent when the handler is going to read them (unread data at close resets the connection)
Reads(r) == r.m = "POST" /\ r.path \in {"root", "rpc2"} /\ r.len \in {"exact", "long"}
Normal(r) == Reads(r) \/ r.body = "empty"

None == [status |-> 0, ctype |-> "-", kind |-> "-"]
VARIABLES pc, req, text, resp, closed
vars == <<pc, req, text, resp, closed>>
Init == pc = "method" /\ req \in {r \in Reqs : Normal(r)} /\ text = "-" /\ resp = None /\ closed = FALSE
Answer(st, ct, k) == resp' = [status |-> st, ctype |-> ct, kind |-> k] /\ pc' = "close"
Fault500 == Answer(500, "config", "error-32603")
\* text classes: "call" "notif" "batch" "badjson" "empty" (decodable), "binary" (gzip bytes), "invalid" (not UTF-8)
IsGzip(e) == e \in {"gzip", "GZIP"}                       \* the header value is lower-cased

Method == /\ pc = "method"
          /\ IF req.m # "POST" THEN Answer(501, "html", IF req.m = "HEAD" THEN "empty" ELSE "html") ELSE pc' = "path" /\ UNCHANGED resp
          /\ UNCHANGED <<req, text, closed>>
Path == /\ pc = "path"
        /\ IF req.path \notin {"root", "rpc2"} THEN Answer(404, "text/plain", "nosuchpage") ELSE pc' = "length" /\ UNCHANGED resp
        /\ UNCHANGED <<req, text, closed>>
Length == /\ pc = "length"
          /\ IF req.len \in {"absent", "nonnum", "negative"} THEN Fault500 ELSE pc' = "read" /\ UNCHANGED resp
          /\ UNCHANGED <<req, text, closed>>
\* the read loop ends at the announced size or at end of stream, whichever comes first
Read == /\ pc = "read"
        /\ text' = CASE req.body = "gzipcall" -> "binary" [] req.body = "badutf8" -> "invalid" [] OTHER -> req.body
        /\ pc' = IF GzipFirst THEN "encoding" ELSE "utf8"
        /\ UNCHANGED <<req, resp, closed>>
Utf8 == /\ pc = "utf8"
        /\ IF text \in {"binary", "invalid"} THEN Fault500
           ELSE pc' = (IF GzipFirst THEN "dispatch" ELSE "encoding") /\ UNCHANGED resp
        /\ UNCHANGED <<req, text, closed>>
Encoding == /\ pc = "encoding"
            /\ IF req.enc \in {"none", "identity"} THEN pc' = (IF GzipFirst THEN "utf8" ELSE "dispatch") /\ UNCHANGED <<resp, text>>
               ELSE IF IsGzip(req.enc)
               THEN IF GzipFirst
                    THEN IF text = "binary" THEN text' = "call" /\ pc' = "utf8" /\ UNCHANGED resp
                         ELSE Answer(400, "none", "empty") /\ UNCHANGED text       \* "error decoding gzip content"
                    ELSE Fault500 /\ UNCHANGED text                                \* gzip_decode() handed a str: TypeError
               ELSE Answer(501, "none", "empty") /\ UNCHANGED text                 \* "encoding ... not supported"
            /\ UNCHANGED <<req, closed>>
Dispatch == /\ pc = "dispatch"
            /\ Answer(200, "config", CASE text = "call" -> "result" [] text = "notif" -> "empty" [] text = "batch" -> "array"
                                       [] text = "badjson" -> "error-32700" [] text = "empty" -> "error-32600")
            /\ UNCHANGED <<req, text, closed>>
Close == /\ pc = "close" /\ closed' = TRUE /\ pc' = "done" /\ UNCHANGED <<req, text, resp>>
Done == pc = "done" /\ UNCHANGED vars                     \* the exchange is over (the handler thread ends)
Next == Method \/ Path \/ Length \/ Read \/ Utf8 \/ Encoding \/ Dispatch \/ Close \/ Done
Spec == Init /\ [][Next]_vars /\ WF_vars(Next)

\* ---- the exchange as a function (what the judge evaluates on a recorded request)
RECURSIVE Run(_, _, _)
Run(p, r, t) ==
  CASE p = "method" -> IF r.m # "POST" THEN [status |-> 501, ctype |-> "html", kind |-> IF r.m = "HEAD" THEN "empty" ELSE "html"] ELSE Run("path", r, t)
    [] p = "path" -> IF r.path \notin {"root", "rpc2"} THEN [status |-> 404, ctype |-> "text/plain", kind |-> "nosuchpage"] ELSE Run("length", r, t)
    [] p = "length" -> IF r.len \in {"absent", "nonnum", "negative"} THEN [status |-> 500, ctype |-> "config", kind |-> "error-32603"]
                       ELSE Run(IF GzipFirst THEN "encoding" ELSE "utf8", r,
                                CASE r.body = "gzipcall" -> "binary" [] r.body = "badutf8" -> "invalid" [] OTHER -> r.body)
    [] p = "utf8" -> IF t \in {"binary", "invalid"} THEN [status |-> 500, ctype |-> "config", kind |-> "error-32603"]
                     ELSE Run(IF GzipFirst THEN "dispatch" ELSE "encoding", r, t)
    [] p = "encoding" -> IF r.enc \in {"none", "identity"} THEN Run(IF GzipFirst THEN "utf8" ELSE "dispatch", r, t)
                         ELSE IF IsGzip(r.enc)
                         THEN IF GzipFirst THEN (IF t = "binary" THEN Run("utf8", r, "call") ELSE [status |-> 400, ctype |-> "none", kind |-> "empty"])
                              ELSE [status |-> 500, ctype |-> "config", kind |-> "error-32603"]
                         ELSE [status |-> 501, ctype |-> "none", kind |-> "empty"]
    [] p = "dispatch" -> [status |-> 200, ctype |-> "config",
                          kind |-> CASE t = "call" -> "result" [] t = "notif" -> "empty" [] t = "batch" -> "array"
                                     [] t = "badjson" -> "error-32700" [] t = "empty" -> "error-32600"]
Respond(r) == Run("method", r, "-")

\* ---- properties of the model
TypeOK == pc \in {"method", "path", "length", "read", "utf8", "encoding", "dispatch", "close", "done"}
\* the step machine and the function agree, and every exchange ends with exactly one response on a closed connection
MachineIsFunction == pc = "done" => (resp = Respond(req) /\ closed)
AlwaysAnswered == <>(pc = "done" /\ resp.status # 0)
\* a JSON-RPC error object with code -32603 is sent iff the status is 500; protocol-level rejections carry no JSON
InternalErrorIff500 == pc = "done" => ((resp.kind = "error-32603") <=> (resp.status = 500))
JsonOnlyWithConfigType == pc = "done" => ((resp.kind \in {"result", "array", "error-32700", "error-32600", "error-32603"}) => resp.ctype = "config")
\* nothing is dispatched unless method, path, length and encoding were all accepted
DispatchGuarded == pc = "dispatch" => (req.m = "POST" /\ req.path \in {"root", "rpc2"} /\ req.len \in {"exact", "long", "minus1"})
\* holds only with the repaired order (checked in the GzipFirst = TRUE instance; violated - by design - in the other)
GzipServed == (pc = "done" /\ Reads(req) /\ IsGzip(req.enc) /\ req.body = "gzipcall") => (resp.status = 200 /\ resp.kind = "result")
=============================================================================
