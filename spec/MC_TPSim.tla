---- MODULE MC_TPSim ----
(* Generator: behaviours of ThreadPool.tla leave TLC as JSON (one line per behaviour) and are replayed     *)
(* step by step into the real code by harness/pool_rec.py (DESIGN 4.5).                                    *)
EXTENDS MC_TP, Json
CONSTANT Depth
VARIABLE hist
ClientMoved(c) == cpc'[c] # cpc[c] \/ cop'[c] # cop[c] \/ nops'[c] # nops[c] \/ cl'[c] # cl[c] \/ obs'[c] # obs[c]
Who == IF \E c \in Clients : ClientMoved(c)
       THEN 100 + (CHOOSE c \in Clients : ClientMoved(c))
       ELSE CHOOSE w \in W : wpc'[w] # wpc[w] /\ wpc[w] \notin {"unborn", "dead"}
SeqOf(S0) == LET RECURSIVE f(_) f(s) == IF s = {} THEN <<>> ELSE LET x == CHOOSE y \in s : \A z \in s : y <= z IN <<x>> \o f(s \ {x}) IN f(S0)
Rec == LET who == Who IN
       [who |-> who,
        pc |-> IF who > 100 THEN cpc[who - 100] ELSE wpc[who],
        op |-> IF who > 100 THEN cop'[who - 100] ELSE <<"none">>,
        act |-> IF who <= 100 /\ wpc[who] = "get" /\ wpc'[who] = "cleanup" THEN "timeout" ELSE "",
        st |-> [stop |-> stop', q |-> q', unfinished |-> unfinished', nbT |-> nbT', nbA |-> nbA', nbP |-> nbP',
                tlist |-> SeqOf(tlist'), alive |-> SeqOf({w \in W : wpc'[w] \notin {"unborn", "dead"}}),
                ts |-> ts', cpc |-> cpc']]
SimInit == MCInit2 /\ hist = <<>>
SimInit3 == MCInit3 /\ hist = <<>>
SimInitCap == MCInitCap /\ hist = <<>>
SimNext == (Next /\ hist' = Append(hist, Rec)) \/ (~ENABLED Next /\ UNCHANGED <<vars, hist>>)
SimSpec == SimInit /\ [][SimNext]_<<vars, hist>>
SimSpec3 == SimInit3 /\ [][SimNext]_<<vars, hist>>
SimSpecCap == SimInitCap /\ [][SimNext]_<<vars, hist>>
Dump == TLCGet("level") < Depth
        \/ PrintT(ToJson([cfg |-> [maxT |-> maxT, minT |-> minT, nc |-> NC, nt |-> Cardinality(Tasks), gated |-> SeqOf(gated), qcap |-> qcap],
                          steps |-> hist]))
====
