--------------------------- MODULE EnvelopeJudge ---------------------------
(* C14 judge: the property predicates evaluated by TLC on concrete calls of the real dump / dumps / loads.  *)
EXTENDS Envelope, Values, Json, IOUtils
Cases == JsonDeserialize(IOEnv.CASES_FILE)
VARIABLE i
Init == i \in 1..Len(Cases)
Next == UNCHANGED i
Spec == Init /\ [][Next]_i
R == Cases[i]
A == R.a
E == Expect(A)
Pref(S) == {"s:" \o x : x \in S}
Raised(o) == o.kind \in {"TypeError", "ValueError"}

IdOK(msg, fresh) ==
  CASE E.id = "verbatim" -> Has(msg, "s:id") /\ Get(msg, "s:id") = R.in.rpcid
    [] E.id = "null"     -> Has(msg, "s:id") /\ Get(msg, "s:id") = VNone
    [] E.id = "absent"   -> ~Has(msg, "s:id")
    [] E.id = "fresh"    -> /\ Has(msg, "s:id") /\ Get(msg, "s:id").k = "str" /\ Get(msg, "s:id").a # ""
                            /\ \A x, y \in 1..Len(fresh) : x # y => fresh[x] # fresh[y]
                            /\ \A x \in 1..Len(fresh) : fresh[x] # ""
    [] OTHER -> TRUE
EmptyContainer(v) == v.k \in {"list", "dict"} /\ v.items = <<>>
BodyOK(msg) ==
  CASE E.kind \in {"request", "notification"} ->
         /\ Get(msg, "s:method") = R.in.method
         /\ Has(msg, "s:params") => IF NonEmptyParams(A) THEN Eqv(R.in.params, Get(msg, "s:params"))
                                    ELSE EmptyContainer(Get(msg, "s:params"))
    [] E.kind = "response" -> Eqv(R.in.params, Get(msg, "s:result")) /\ (Ver(A) = 1 => Get(msg, "s:error") = VNone)
    [] E.kind = "error" ->
         LET er == Get(msg, "s:error") IN
         /\ er.k = "dict" /\ Get(er, "s:code") = R.in.fcode /\ Get(er, "s:message") = R.in.fmsg
         /\ IF A.p = "fault" THEN Has(er, "s:data") /\ Eqv(R.in.fdata, Get(er, "s:data")) ELSE ~Has(er, "s:data")
         /\ (Ver(A) = 1 => Get(msg, "s:result") = VNone)
    [] OTHER -> TRUE
MsgOK(o, fresh) ==
  IF E.kind = "raise" THEN Raised(o)
  ELSE /\ o.kind = "ok" /\ o.msg.k = "dict"
       /\ KeySet(o.msg) = Pref(E.members)
       /\ (Ver(A) = 2 => Get(o.msg, "s:jsonrpc") = VStr("2.0"))
       /\ IdOK(o.msg, fresh)
       /\ BodyOK(o.msg)
DumpOK == MsgOK(R.dump, R.fresh)
DumpsOK == MsgOK(R.dumps, R.fresh)
\* loads(dumps(x)) returns the same structure as dump(x), up to JSON normalisation (a fresh id differs by design)
Strip(msg) == [msg EXCEPT !.items = [j \in 1..Len(msg.items) |-> IF msg.keys[j] = "s:id" /\ E.id = "fresh" THEN VNone ELSE msg.items[j]]]
RoundTrip == (E.kind # "raise" /\ R.dump.kind = "ok") => (R.rt.kind = "ok" /\ Eqv(Strip(R.dump.msg), Strip(R.rt.msg)))
LoadsEmptyIsNone == R.loadsempty = "none"

Flag(name) == PrintT(<<IF R.judged THEN "PROPFAIL" ELSE "DRIFT", i, name>>)
\* keys of several types inside the parameters / result / fault data do not keep a message from being emitted
MixedKeysOK == R.mixed \in {"ok", "na"}
Monitor == /\ DumpOK \/ Flag("dump:" \o E.kind)
           /\ MixedKeysOK \/ Flag("dumps:mixedkeys")
           /\ DumpsOK \/ Flag("dumps:" \o E.kind)
           /\ RoundTrip \/ Flag("LoadsDumpsRoundTrip")
           /\ LoadsEmptyIsNone \/ Flag("LoadsEmptyIsNone")
=============================================================================
