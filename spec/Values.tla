------------------------------- MODULE Values -------------------------------
(* The value bridge (DESIGN 3.1).  A Python / JSON value is a record                                      *)
(*     [k |-> kind, a |-> atom text, items |-> <<...>>, keys |-> <<"s:name", ...>>, cls |-> class name]   *)
(* produced by harness/values.py; atoms are opaque tokens for the specification (ints as decimal text,    *)
(* floats as hex text), so identity of primitives is identity of (kind, atom).                            *)
EXTENDS Naturals, Sequences, FiniteSets, TLC

Range(s) == {s[i] : i \in 1..Len(s)}
IsPrim(v) == v.k \in {"none", "bool", "int", "float", "str"}
IsSeqLike(v) == v.k \in {"list", "tuple", "set", "frozenset"}
IsUnordered(v) == v.k \in {"set", "frozenset"}
Mk(kind, atom) == [k |-> kind, a |-> atom, items |-> <<>>, keys |-> <<>>, cls |-> ""]
VNone == Mk("none", "")
VStr(s) == Mk("str", s)
VInt(s) == Mk("int", s)
VList(xs) == [k |-> "list", a |-> "", items |-> xs, keys |-> <<>>, cls |-> ""]

\* dictionaries: keys is a sorted sequence of typed key texts ("s:abc" for the string key "abc")
Has(d, key) == \E i \in 1..Len(d.keys) : d.keys[i] = key
Get(d, key) == d.items[CHOOSE i \in 1..Len(d.keys) : d.keys[i] = key]
KeySet(d) == Range(d.keys)
StrKeysOnly(d) == \A i \in 1..Len(d.keys) : SubSeq(d.keys[i], 1, 2) = "s:"

RECURSIVE OnlyJson(_)
\* made of dicts, lists and primitives only (what the JSON backend accepts, given string keys)
OnlyJson(v) == \/ IsPrim(v)
               \/ v.k = "list" /\ \A i \in 1..Len(v.items) : OnlyJson(v.items[i])
               \/ v.k = "dict" /\ \A i \in 1..Len(v.items) : OnlyJson(v.items[i])

RECURSIVE Eqv(_, _)
\* "equal up to container normalisation": tuples / sets / frozensets become lists (set-derived lists compare as
\* bags), dicts keep their keys, primitives keep their exact kind and atom
BagEq(xs, ys) == /\ Len(xs) = Len(ys)
                 /\ \E p \in [1..Len(xs) -> 1..Len(ys)] :
                       /\ \A i, j \in 1..Len(xs) : i # j => p[i] # p[j]
                       /\ \A i \in 1..Len(xs) : Eqv(xs[i], ys[p[i]])
Eqv(orig, out) ==
  IF IsPrim(orig) THEN out.k = orig.k /\ out.a = orig.a
  ELSE IF IsSeqLike(orig)
       THEN /\ out.k = "list" /\ Len(out.items) = Len(orig.items)
            /\ IF IsUnordered(orig) THEN BagEq(orig.items, out.items)
               ELSE \A i \in 1..Len(orig.items) : Eqv(orig.items[i], out.items[i])
  ELSE IF orig.k = "dict"
       THEN /\ out.k = "dict" /\ out.keys = orig.keys
            /\ \A i \in 1..Len(orig.items) : Eqv(orig.items[i], out.items[i])
  ELSE out = orig

RECURSIVE Depth(_)
Max(S) == CHOOSE x \in S : \A y \in S : y <= x
Depth(v) == IF v.items = <<>> THEN 0 ELSE 1 + Max({Depth(v.items[i]) : i \in 1..Len(v.items)})
=============================================================================
