---------------------------- MODULE HttpLayerJudge ----------------------------
(* growth judge: recorded raw HTTP exchanges with real servers against HttpLayer.tla (the code as it is: GzipFirst = FALSE) *)
EXTENDS Naturals, Sequences, FiniteSets, TLC, Json, IOUtils
GzipFirst == FALSE
VARIABLES pc, req, text, resp, closed
M == INSTANCE HttpLayer
Cases == JsonDeserialize(IOEnv.CASES_FILE)
VARIABLE i
Init == i \in 1..Len(Cases) /\ pc = "-" /\ req = "-" /\ text = "-" /\ resp = "-" /\ closed = FALSE
Next == UNCHANGED <<i, pc, req, text, resp, closed>>
Spec == Init /\ [][Next]_<<i, pc, req, text, resp, closed>>
R == Cases[i]
E == M!Respond(R.req)
Kind(k) == CASE k = "error-32603" -> "error-32603" [] OTHER -> k
Fail(name) == PrintT(<<"GROWTHFAIL", i, name, 0>>)
Monitor == /\ (R.obs.status = E.status) \/ Fail("HttpStatus")
           /\ (R.obs.ctype = E.ctype) \/ Fail("HttpContentType")
           /\ (R.obs.kind = E.kind) \/ Fail("HttpBodyKind")
           \* every answer declares exactly one Content-Length, equal to the number of body bytes
           \* (the answer to HEAD announces the length of the page it does not send)
           /\ (R.obs.lenexact \/ R.req.m = "HEAD") \/ Fail("HttpLengthExact")
           \* the connection is closed after the single response, whatever the client announced
           /\ (R.obs.end = "closed" /\ R.obs.proto = "HTTP/1.0") \/ Fail("HttpClosedAfterOne")
=============================================================================
