------------------------------ MODULE Envelope ------------------------------
(* C14: message construction (jsonrpclib.jsonrpc.dump / dumps / Payload / Fault) as a decision function     *)
(* over an abstract argument domain.  TLC enumerates the whole domain (one state per case) and prints each   *)
(* case with its expected outcome; the harness concretises every case several times against the real code;  *)
(* EnvelopeJudge evaluates the property predicates on the concrete records.                                  *)
EXTENDS Naturals, Sequences, FiniteSets, TLC

MethodC == {"str", "empty", "int", "none"}
ParamsC == {"list", "tuple", "dict", "elist", "etuple", "edict", "none", "int", "str", "fault", "faultnd"}
IdC     == {"none", "empty", "str", "zero", "zerof", "int", "neg", "frac"}
VerC    == {"none", "1f", "2f", "1s", "2s"}
CfgVerC == {"1", "2"}

Ver(c) == IF c.v = "none" THEN (IF c.cv = "1" THEN 1 ELSE 2) ELSE IF c.v \in {"1f", "1s"} THEN 1 ELSE 2
MethodIsStr(c) == c.m \in {"str", "empty"}
IsFault(c) == c.p \in {"fault", "faultnd"}
\* params after "if not is_response and params is None: params = []"
P(c) == IF ~c.resp /\ c.p = "none" THEN "elist" ELSE c.p
ValidParams(c) == P(c) \in {"list", "tuple", "dict", "elist", "etuple", "edict", "fault", "faultnd"} \/ (c.resp /\ P(c) = "none")
NonEmptyParams(c) == P(c) \in {"list", "tuple", "dict"}
IdUsable(c) == c.id \in {"str", "zero", "zerof", "int", "neg", "frac"}      \* any non-empty string or any number, including 0

\* expected outcome: kind, member names, how the id member is obtained
Expect(c) ==
  IF MethodIsStr(c) /\ ~ValidParams(c) THEN [kind |-> "raise", members |-> {}, id |-> "-"]
  ELSE IF IsFault(c)
       THEN [kind |-> "error",
             members |-> IF Ver(c) = 2 THEN {"jsonrpc", "id", "error"} ELSE {"result", "id", "error"},
             id |-> IF c.id = "none" THEN "null" ELSE "verbatim"]
  ELSE IF ~MethodIsStr(c) /\ ~c.resp THEN [kind |-> "raise", members |-> {}, id |-> "-"]
  ELSE IF c.resp
       THEN IF c.id = "none" THEN [kind |-> "raise", members |-> {}, id |-> "-"]
            ELSE [kind |-> "response",
                  members |-> IF Ver(c) = 2 THEN {"jsonrpc", "result", "id"} ELSE {"result", "id", "error"},
                  id |-> "verbatim"]
  ELSE IF c.notify
       THEN [kind |-> "notification",
             members |-> IF Ver(c) = 2 THEN {"jsonrpc", "method"} \cup (IF NonEmptyParams(c) THEN {"params"} ELSE {})
                         ELSE {"method", "params", "id"},
             id |-> IF Ver(c) = 2 THEN "absent" ELSE "null"]
  ELSE [kind |-> "request",
        members |-> IF Ver(c) = 2 THEN {"jsonrpc", "method", "id"} \cup (IF NonEmptyParams(c) THEN {"params"} ELSE {})
                    ELSE {"method", "params", "id"},
        id |-> IF IdUsable(c) THEN "verbatim" ELSE "fresh"]

\* combinations the statement does not speak about (both flags set; a Fault passed together with a method name or
\* as a "request"): modelled as the code behaves, never judged
Judged(c) == ~(c.resp /\ c.notify) /\ (IsFault(c) => (c.resp /\ c.m = "none"))
=============================================================================
