SPECIFICATION Spec
INVARIANT Monitor
INVARIANT ModelOK
CHECK_DEADLOCK FALSE
