SPECIFICATION TSpec
CONSTANTS
  MaxOps = 1000
  MaxJobs = 1000
INVARIANT Monitor
CHECK_DEADLOCK FALSE
