SPECIFICATION TSpec
CONSTANTS
  Items <- TItems
  MaxOps = 1000
INVARIANT Monitor
CHECK_DEADLOCK FALSE
