--------------------------- MODULE DispatcherJudge ---------------------------
(* Judge for C02 / C03 / C04 (inline) / C05 / C13 (sequential): the predicates evaluated by TLC on concrete     *)
(* bodies pushed through the real SimpleJSONRPCDispatcher._marshaled_dispatch.  The abstract classes of every    *)
(* entry are recomputed here from the concrete entry value (only the semantic class of a well-formed method      *)
(* name comes from the harness, which knows the registry).                                                       *)
EXTENDS Dispatcher, Values, Json, IOUtils
Cases == JsonDeserialize(IOEnv.CASES_FILE)
VARIABLE i
Init == i \in 1..Len(Cases)
Next == UNCHANGED i
Spec == Init /\ [][Next]_i
R == Cases[i]

Abs(x) ==
  LET v == x.v IN
  IF v.k # "dict" THEN NonEntry
  ELSE [obj |-> TRUE,
        jr |-> Has(v, "s:jsonrpc"),
        idc |-> IF ~Has(v, "s:id") THEN "absent"
                ELSE LET d == Get(v, "s:id") IN IF d.k = "none" THEN "null" ELSE IF d.k = "str" /\ d.a = "" THEN "empty" ELSE "other",
        mc |-> IF ~Has(v, "s:method") THEN "absent"
               ELSE LET m == Get(v, "s:method") IN
                    IF m.k # "str" THEN "nonstr" ELSE IF m.a = "" THEN "empty" ELSE x.mc,
        pc |-> IF ~Has(v, "s:params") THEN "absent"
               ELSE IF Get(v, "s:params").k \in {"list", "dict"} THEN "container" ELSE "other"]
Es == [j \in 1..Len(R.entries) |-> Abs(R.entries[j])]
O == BodyOutcome(R.bk, Es, R.sv, R.dk)
A == Answering(O.per)
\* index (in the entry sequence) of the j-th answering entry
AnsIdx == SelectSeq([j \in 1..Len(O.per) |-> j], LAMBDA j : O.per[j].resp)
Rep == R.out.replies

\* ---------------- C02
ErrObj(x) == x.k = "dict" /\ Has(x, "s:code") /\ Get(x, "s:code").k = "int" /\ Has(x, "s:message") /\ Get(x, "s:message").k = "str"
WF2(r) == /\ Get(r, "s:jsonrpc") = VStr("2.0") /\ Has(r, "s:id")
          /\ (Has(r, "s:result") # Has(r, "s:error"))
          /\ (Has(r, "s:error") => ErrObj(Get(r, "s:error")))
          /\ KeySet(r) \subseteq {"s:jsonrpc", "s:id", "s:result", "s:error"}
WF1(r) == /\ Has(r, "s:result") /\ Has(r, "s:error") /\ Has(r, "s:id")
          /\ \/ Get(r, "s:error") = VNone
             \/ (Get(r, "s:result") = VNone /\ ErrObj(Get(r, "s:error")))
          /\ KeySet(r) \subseteq {"s:id", "s:result", "s:error"}
WellFormed(r) == r.k = "dict" /\ IF Has(r, "s:jsonrpc") THEN WF2(r) ELSE WF1(r)
NeverRaises == ~R.out.raised
WellFormedOut == R.out.raised \/
                 /\ R.out.kind \in {"empty", "json"}
                 /\ (R.out.kind = "json" => (Len(Rep) >= 1 /\ \A j \in 1..Len(Rep) : WellFormed(Rep[j])))
\* ---------------- C03
EmptyNotArray == R.out.raised \/ ((A = <<>>) <=> (R.out.kind = "empty"))
ArrayShape == (R.out.kind = "json") => (R.out.array = O.array)
\* a dispatcher that raises has produced no response at all
OneToOne == IF R.out.raised THEN A = <<>> ELSE Len(Rep) = Len(A)
IdOf(j) == LET v == R.entries[j].v IN IF v.k = "dict" /\ Has(v, "s:id") THEN Get(v, "s:id") ELSE VNone
IdEcho == (~R.out.raised /\ Len(Rep) = Len(A)) =>
            \A j \in 1..Len(A) : Rep[j].k = "dict" /\ Has(Rep[j], "s:id") /\
                 Get(Rep[j], "s:id") = (IF A[j].echo THEN IdOf(AnsIdx[j]) ELSE VNone)
\* ---------------- C04 (inline): a well-formed notification is never answered and runs exactly once
HasNotif == \E j \in 1..Len(Es) : Valid(Es[j]) /\ Notif(Es[j])
\* (a dispatcher that raises while everything it was given is a well-formed notification has not handled it silently:
\* over HTTP the exception becomes a 500 answer)
AllNotif == Len(Es) >= 1 /\ \A j \in 1..Len(Es) : Valid(Es[j]) /\ Notif(Es[j])
NotifSilent == /\ (HasNotif /\ ~R.out.raised) => Len(Rep) <= Len(A)
               /\ AllNotif => ~R.out.raised
CallsExact == R.out.raised \/ \A j \in 1..Len(Es) : (R.entries[j].alias > 0 \/ Len(Es) = 1) => R.entries[j].ncalls = O.per[j].calls
NotifOnce == R.out.raised \/ \A j \in 1..Len(Es) : (Valid(Es[j]) /\ Notif(Es[j]) /\ (R.entries[j].alias > 0 \/ Len(Es) = 1)) => R.entries[j].ncalls = O.per[j].calls
\* ---------------- C05
CodeText(c) == CASE c = -32700 -> "-32700" [] c = -32600 -> "-32600" [] c = -32601 -> "-32601" [] c = -32602 -> "-32602" [] c = -32603 -> "-32603" [] c = -32050 -> "-32050" [] OTHER -> "?"
IsResult(r) == IF Has(r, "s:jsonrpc") THEN Has(r, "s:result") /\ ~Has(r, "s:error")
               ELSE Has(r, "s:error") /\ Get(r, "s:error") = VNone
CodeOK(r, codes) == \/ (0 \in codes /\ IsResult(r))
                    \/ \E c \in codes \ {0} : Has(r, "s:error") /\ Get(r, "s:error").k = "dict"
                                              /\ Get(Get(r, "s:error"), "s:code") = VInt(CodeText(c))
Codes == /\ R.out.raised => A = <<>>
         /\ (~R.out.raised /\ Len(Rep) = Len(A)) => \A j \in 1..Len(A) : Rep[j].k = "dict" /\ CodeOK(Rep[j], A[j].codes)
RejectedRunNothing == R.out.raised \/
   ((R.dk = "default" /\ \A j \in 1..Len(O.per) : O.per[j].calls = 0) => R.total_calls = 0)
MessageNames == (~R.out.raised /\ Len(Rep) = Len(A)) =>
   \A j \in 1..Len(A) : (A[j].codes = {-32603} /\ R.dk = "default" /\ Es[AnsIdx[j]].mc = "raise") => (R.out.flags[j].hasType /\ R.out.flags[j].hasText)
ClientCode == (R.client.kind # "-" /\ Len(A) = 1 /\ Len(Rep) = 1 /\ ~(0 \in A[1].codes)) =>
                 /\ R.client.kind \in {"ProtocolError", "AppError"}
                 /\ \E c \in A[1].codes : R.client.code = VInt(CodeText(c))
\* ---------------- C13 (sequential part): the form of a reply depends on its request and the server version only
FormOK(r, f) == f = "any" \/ (f = "2" /\ Has(r, "s:jsonrpc")) \/ (f = "1" /\ ~Has(r, "s:jsonrpc"))
Form == (~R.out.raised /\ Len(Rep) = Len(A)) => \A j \in 1..Len(A) : Rep[j].k = "dict" /\ FormOK(Rep[j], A[j].form)
ConfigUntouched == R.cfgsame

Flag(name) == PrintT(<<"PROPFAIL", i, name>>)
Monitor == /\ NeverRaises \/ Flag("NeverRaises")
           /\ WellFormedOut \/ Flag("WellFormedOut")
           /\ EmptyNotArray \/ Flag("EmptyNotArray")
           /\ ArrayShape \/ Flag("ArrayShape")
           /\ OneToOne \/ Flag("OneToOne")
           /\ IdEcho \/ Flag("IdEcho")
           /\ NotifSilent \/ Flag("NotifSilent")
           /\ NotifOnce \/ Flag("NotifOnce")
           /\ CallsExact \/ Flag("CallsExact")
           /\ Codes \/ Flag("Codes")
           /\ RejectedRunNothing \/ Flag("RejectedRunNothing")
           /\ MessageNames \/ Flag("MessageNames")
           /\ ClientCode \/ Flag("ClientCode")
           /\ Form \/ Flag("Form")
           /\ ConfigUntouched \/ Flag("ConfigUntouched")
=============================================================================
