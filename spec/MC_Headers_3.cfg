SPECIFICATION HSpec
CONSTANTS
  Dicts <- MCDicts
  Low <- MCLow
  MaxEvents = 3
INVARIANT StackMatchesBlocks
INVARIANT SavedIsPrefix
INVARIANT NeverSuperseded
INVARIANT Emit
CHECK_DEADLOCK FALSE
