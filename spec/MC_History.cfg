SPECIFICATION Spec
CONSTANTS
  Items = {"a", "b"}
  MaxOps = 5
PROPERTY AppendOnlyUntilClear
CHECK_DEADLOCK FALSE
