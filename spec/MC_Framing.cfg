SPECIFICATION Spec
CONSTANTS
  MaxChars = 4
  MaxRead = 4
  DecodeOnce = TRUE
INVARIANT ReassemblyIndependent
INVARIANT Emit
PROPERTY Terminates
CHECK_DEADLOCK FALSE
