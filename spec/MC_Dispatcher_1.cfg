SPECIFICATION Spec
CONSTANT MaxN = 1
INVARIANT OneToOne
INVARIANT NotifSilent
INVARIANT RejectedRunNothing
INVARIANT FormRule
INVARIANT Emit
CHECK_DEADLOCK FALSE
