---- MODULE MC_JsonClass ----
(* model run for C07 / C15 / C20: over a small closed universe of values (atoms, the four iterable kinds, dicts,  *)
(* plain / slotted-like / ignoring / serialising classes, enum members, Decimals, nested up to depth 2) the       *)
(* algorithm of JsonClass.tla round-trips, emits JSON shapes only, never emits an ignored name and emits the      *)
(* handler's output verbatim.                                                                                     *)
EXTENDS JsonClass
Atoms == {VNone, Mk("bool", "true"), Mk("int", "0"), Mk("int", "1"), Mk("float", "0x1.8p+0"), Mk("str", ""), Mk("str", "s")}
Con(kind, xs) == [k |-> kind, a |-> "", items |-> xs, keys |-> <<>>, cls |-> ""]
Seqs(S) == {<<>>} \cup {<<x>> : x \in S} \cup {<<x, y>> : x \in S, y \in S}
SetSeqs(S) == {<<>>} \cup {<<x>> : x \in S} \cup {<<x, y>> : x \in S, y \in {z \in S : TRUE}}
Distinct(s) == \A i, j \in 1..Len(s) : i # j => s[i] # s[j]
Containers(S) == {Con("list", xs) : xs \in Seqs(S)} \cup {Con("tuple", xs) : xs \in Seqs(S)}
                 \cup {Con("set", xs) : xs \in {s \in Seqs(S) : Distinct(s)}}
                 \cup {MkDict(<<"s:k">>, <<x>>) : x \in S} \cup {MkDict(<<>>, <<>>)}
CT0 == [P |-> [qual |-> "m.P", kind |-> "plain", ctor |-> <<>>, ignore |-> <<>>, local |-> FALSE, members |-> [n |-> VNone]],
        I |-> [qual |-> "m.I", kind |-> "plain", ctor |-> <<>>, ignore |-> <<"b">>, local |-> FALSE, members |-> [n |-> VNone]],
        L |-> [qual |-> "L", kind |-> "plain", ctor |-> <<>>, ignore |-> <<>>, local |-> TRUE, members |-> [n |-> VNone]],
        Q |-> [qual |-> "m.Q", kind |-> "ser_list", ctor |-> <<"x">>, ignore |-> <<>>, local |-> FALSE, members |-> [n |-> VNone]],
        Color |-> [qual |-> "m.Color", kind |-> "enum", ctor |-> <<>>, ignore |-> <<>>, local |-> FALSE,
                   members |-> [RED |-> Mk("int", "1"), GREEN |-> Mk("str", "g")]],
        Decimal |-> [qual |-> "decimal.Decimal", kind |-> "decimal", ctor |-> <<>>, ignore |-> <<>>, local |-> FALSE, members |-> [n |-> VNone]]]
ObjP(cls, a, b) == [k |-> "obj", a |-> "", cls |-> cls, keys |-> <<"s:a", "s:b">>, items |-> <<a, b>>]
ObjQ(x, lab) == [k |-> "obj", a |-> "", cls |-> "Q", keys |-> <<"s:x", "s:label">>, items |-> <<x, lab>>]
Specials == {[k |-> "enum", a |-> "RED", items |-> <<>>, keys |-> <<>>, cls |-> "Color"],
             [k |-> "enum", a |-> "GREEN", items |-> <<>>, keys |-> <<>>, cls |-> "Color"],
             [k |-> "decimal", a |-> "1.5", items |-> <<>>, keys |-> <<>>, cls |-> "Decimal"]}
SmallAtoms == {VNone, Mk("int", "0"), Mk("str", "s")}
V1 == Atoms \cup Containers(SmallAtoms)
Objs1 == {ObjP(c, a, b) : c \in {"P", "I", "L"}, a \in V1, b \in SmallAtoms} \cup {ObjQ(x, lab) : x \in SmallAtoms, lab \in SmallAtoms} \cup Specials
\* depth 2: containers holding objects, objects holding containers of objects
V2 == V1 \cup Objs1 \cup Containers({ObjP("P", VNone, Mk("int", "0")), ObjP("L", Mk("str", "s"), VNone), ObjQ(VNone, VNone)} \cup Specials)
Objs2 == {ObjP(c, a, VNone) : c \in {"P", "I"}, a \in Containers({ObjP("L", VNone, VNone), ObjQ(Mk("int", "0"), VNone)} \cup Specials)}
Universe == V2 \cup Objs2
HandlerSets == {{}, {"tuple"}, {"str"}, {"P"}, {"int", "Q"}}
IgnoreSets == {{}, {"s:a"}, {"s:b", "s:label"}}
VARIABLES v, H, ign
Init == v \in Universe /\ H \in HandlerSets /\ ign \in IgnoreSets
Next == UNCHANGED <<v, H, ign>>
Spec == Init /\ [][Next]_<<v, H, ign>>
Cfg == [H |-> H, ign |-> ign]
D == Dump(v, Cfg, CT0)
\* C15 / C07
OnlyJsonShapes == OnlyJson(D)
RoundTrips == H = {} => SameN(NormV(v, Cfg, CT0), Load(D, CT0))
\* C20
RECURSIVE NoIgnoredName(_, _)
NoIgnoredName(o, d) == \* o: original value, d: its dumped form
  IF Handled(o, H) THEN TRUE
  ELSE IF o.k = "obj" /\ CT0[o.cls].kind = "plain"
       THEN /\ \A key \in ign \cup {Prefixed(CT0[o.cls].ignore[j]) : j \in 1..Len(CT0[o.cls].ignore)} : ~Has(d, key)
            /\ \A key \in KeySet(o) : Has(d, key) => NoIgnoredName(Get(o, key), Get(d, key))
       ELSE IF o.k \in {"list", "tuple"} THEN \A j \in 1..Len(o.items) : NoIgnoredName(o.items[j], d.items[j])
       ELSE IF o.k = "dict" THEN \A key \in KeySet(o) : NoIgnoredName(Get(o, key), Get(d, key))
       ELSE TRUE
IgnoredAbsent == NoIgnoredName(v, D)
RECURSIVE HandlerOut(_, _)
HandlerOut(o, d) ==
  IF Handled(o, H) THEN SameJ(d, HOut(o))
  ELSE IF o.k \in {"list", "tuple"} THEN \A j \in 1..Len(o.items) : HandlerOut(o.items[j], d.items[j])
  ELSE IF o.k = "dict" THEN \A key \in KeySet(o) : HandlerOut(Get(o, key), Get(d, key))
  ELSE IF o.k = "obj" /\ CT0[o.cls].kind = "plain" THEN \A key \in KeySet(o) : Has(d, key) => HandlerOut(Get(o, key), Get(d, key))
  ELSE TRUE
HandlerVerbatimEverywhere == HandlerOut(v, D)
====
