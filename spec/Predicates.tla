------------------------------ MODULE Predicates ------------------------------
(* Spec growth: the request classification helpers jsonrpclib.jsonrpc.isbatch / isnotification as decision      *)
(* functions over an abstract request.                                                                           *)
EXTENDS Naturals, Sequences, FiniteSets, TLC
TopK == {"list", "tuple", "dict", "scalar"}
FirstK == {"none", "dict_nojr", "dict_jr2", "dict_jr1", "dict_jrbad", "nondict"}      \* first element (for sequences)
\* isbatch: a non-empty list / tuple whose first element is an object with a "jsonrpc" member >= 2.0
IsBatch(top, first) == IF top \notin {"list", "tuple"} \/ first \in {"none", "nondict", "dict_nojr"} THEN "false"
                       ELSE IF first = "dict_jrbad" THEN "ProtocolError"
                       ELSE IF first = "dict_jr1" THEN "false" ELSE "true"
IdK == {"absent", "null", "zero", "empty", "str"}
\* isnotification: no id member, or id null
IsNotification(idk) == IF idk \in {"absent", "null"} THEN "true" ELSE "false"
VARIABLES top, first, idk
Init == top \in TopK /\ first \in FirstK /\ idk \in IdK
Next == UNCHANGED <<top, first, idk>>
Spec == Init /\ [][Next]_<<top, first, idk>>
OnlySequencesAreBatches == IsBatch(top, first) = "true" => top \in {"list", "tuple"}
=============================================================================
