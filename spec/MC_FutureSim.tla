---- MODULE MC_FutureSim ----
(* Generator for C16: behaviours of Future.tla as JSON, replayed step by step into the real FutureResult. *)
EXTENDS MC_Future, Json
CONSTANT Depth
VARIABLE hist
Who == CHOOSE p \in ProcSet : pc'[p] # pc[p] \/ (p = 200 /\ k' # k)
Rec == [who |-> Who, kind |-> kind',
        st |-> [cb |-> cb', extra |-> extra', eset |-> eset', data |-> data', exc |-> exc', lock |-> lock',
                ncalls |-> Len(calls'), taskdone |-> taskdone']]
SimInit == Init /\ hist = <<>>
SimNext == (Next /\ ~(\A p \in ProcSet : pc[p] = "Done") /\ hist' = Append(hist, Rec))
           \/ ((\A p \in ProcSet : pc[p] = "Done") /\ UNCHANGED <<vars, hist>>)
SimSpec == SimInit /\ [][SimNext]_<<vars, hist>>
Dump == TLCGet("level") < Depth
        \/ PrintT(ToJson([raises |-> raises, nreg |-> Cardinality(Regs), steps |-> hist]))
====
