SPECIFICATION Spec
CONSTANTS
  MaxLen = 4
  NTail = 3
INVARIANT Recovers
INVARIANT Emit
PROPERTY HealthyAtEnd
CHECK_DEADLOCK FALSE
