------------------------------- MODULE Future -------------------------------
(***************************************************************************)
(* jsonrpclib.threadpool.FutureResult / EventData after the C16 repair,     *)
(* at the granularity of single shared-memory operations: every read or     *)
(* write of __callback / __extra / __data / __exception, every Event        *)
(* operation and every lock operation is one labelled step, because that is *)
(* exactly what another thread can observe.  (FutureOrig.tla is the         *)
(* lock-free original; TLC finds the three defects of the pinned commit on  *)
(* it: double callback, callback called with a stale extra, result() raising*)
(* the outcome while done() is still False.)                                *)
(*                                                                         *)
(* Threads: one executor X (FutureResult.execute), registrars (each calls   *)
(* set_callback once, with callback id = extra = its own id), one observer  *)
(* issuing done() / result(0) calls.                                        *)
(***************************************************************************)
EXTENDS Naturals, Sequences, FiniteSets, TLC

CONSTANTS Regs,      \* registrar ids (positive naturals); 0 = no callback
          NObs       \* number of observations made by the observer

(* --fair algorithm Future {
  variables raises \in BOOLEAN,              \* does the task raise?  (fixed by Init)
            cb = 0, extra = 0,               \* FutureResult.__callback / __extra
            eset = FALSE, data = "none", exc = "none",   \* EventData
            lock = 0,
            taskdone = FALSE,                \* the task body is over
            calls = <<>>,                    \* callback invocations
            seen = <<>>,                     \* observations, in the observer's program order
            sup = {},                        \* registrations superseded before completion
            xret = "";                       \* how execute() ended

  \* every label is exactly one operation that the harness can observe (the event kind is given in brackets)
  process (X = 100) variables xcb = 0, xextra = 0, xd = "none", xe = "none"; {
    x0:  taskdone := TRUE;                                      \* [task_end]  the task body returns or raises
    x1:  await lock = 0; lock := 100;                           \* [lock]      __set_done: with self.__lock
    x2:  data := IF raises THEN "none" ELSE "R";                \* [wr_data]   EventData.set / raise_exception
    x3:  exc := IF raises THEN "E" ELSE "none";                 \* [wr_exc]
    x4:  eset := TRUE;                                          \* [ev_set]
    x5:  xcb := cb;                                             \* [rd_cb]     return self.__callback, self.__extra
    x6:  xextra := extra;                                       \* [rd_extra]
    x7:  lock := 0;                                             \* [unlock]
         if (xcb = 0) { goto x11 };                             \*             finally: self.__notify(callback, extra)
    x8:  xd := data;                                            \* [rd_data]   self._done_event.data
    x9:  xe := exc;                                             \* [rd_exc]    self._done_event.exception
    x10: calls := Append(calls, [by |-> 100, cb |-> xcb, d |-> xd, e |-> xe, x |-> xextra]);   \* [cb]
    x11: xret := IF raises THEN "E" ELSE "ok";                  \* [exec_ret]  execute() re-raises the task's exception
  }

  process (R \in Regs) variables rdone = FALSE, rd = "none", re = "none"; {
    r1: await lock = 0; lock := self;                           \* [lock]      set_callback: with self.__lock
    r2: if (cb # 0 /\ ~eset) { sup := sup \cup {cb} };
        cb := self;                                             \* [wr_cb]
    r3: extra := self;                                          \* [wr_extra]
    r4: rdone := eset;                                          \* [is_set]    done = self._done_event.is_set()
    r5: lock := 0;                                              \* [unlock]
        if (~rdone) { goto r9 };
    r6: rd := data;                                             \* [rd_data]   self.__notify(method, extra)
    r7: re := exc;                                              \* [rd_exc]
    r8: calls := Append(calls, [by |-> self, cb |-> self, d |-> rd, e |-> re, x |-> self]);    \* [cb]
    r9: skip;                                                   \* [reg_ret]
  }

  process (O = 200) variables k = 0, w = FALSE, oe = "none", ov = "", td = FALSE, kind = ""; {
    o1: while (k < NObs) {
          either { kind := "done"; ov := IF eset THEN "true" ELSE "false"; td := taskdone; goto o4 }   \* [is_set]   done()
          or     { kind := "result"; w := eset; td := taskdone;                                      \* [ev_wait0] result(0)
                   if (~w) { ov := "timeout"; goto o4 } };
    o2:   oe := exc;                                            \* [rd_exc]    if not result or self.__exception is None
    o3:   if (oe # "none") { ov := exc }                        \* [rd_exc]    raise self.__exception
          else { ov := data };                                  \* [rd_data]   return self._done_event.data
    o4:   seen := Append(seen, [k |-> kind, v |-> ov, td |-> td]);   \* [obs_end]
          k := k + 1;
        }
  }
} *)
\* BEGIN TRANSLATION (chksum(pcal) = "7c28162a" /\ chksum(tla) = "5e11ec18")
VARIABLES pc, raises, cb, extra, eset, data, exc, lock, taskdone, calls, seen, 
          sup, xret, xcb, xextra, xd, xe, rdone, rd, re, k, w, oe, ov, td, 
          kind

vars == << pc, raises, cb, extra, eset, data, exc, lock, taskdone, calls, 
           seen, sup, xret, xcb, xextra, xd, xe, rdone, rd, re, k, w, oe, ov, 
           td, kind >>

ProcSet == {100} \cup (Regs) \cup {200}

Init == (* Global variables *)
        /\ raises \in BOOLEAN
        /\ cb = 0
        /\ extra = 0
        /\ eset = FALSE
        /\ data = "none"
        /\ exc = "none"
        /\ lock = 0
        /\ taskdone = FALSE
        /\ calls = <<>>
        /\ seen = <<>>
        /\ sup = {}
        /\ xret = ""
        (* Process X *)
        /\ xcb = 0
        /\ xextra = 0
        /\ xd = "none"
        /\ xe = "none"
        (* Process R *)
        /\ rdone = [self \in Regs |-> FALSE]
        /\ rd = [self \in Regs |-> "none"]
        /\ re = [self \in Regs |-> "none"]
        (* Process O *)
        /\ k = 0
        /\ w = FALSE
        /\ oe = "none"
        /\ ov = ""
        /\ td = FALSE
        /\ kind = ""
        /\ pc = [self \in ProcSet |-> CASE self = 100 -> "x0"
                                        [] self \in Regs -> "r1"
                                        [] self = 200 -> "o1"]

x0 == /\ pc[100] = "x0"
      /\ taskdone' = TRUE
      /\ pc' = [pc EXCEPT ![100] = "x1"]
      /\ UNCHANGED << raises, cb, extra, eset, data, exc, lock, calls, seen, 
                      sup, xret, xcb, xextra, xd, xe, rdone, rd, re, k, w, oe, 
                      ov, td, kind >>

x1 == /\ pc[100] = "x1"
      /\ lock = 0
      /\ lock' = 100
      /\ pc' = [pc EXCEPT ![100] = "x2"]
      /\ UNCHANGED << raises, cb, extra, eset, data, exc, taskdone, calls, 
                      seen, sup, xret, xcb, xextra, xd, xe, rdone, rd, re, k, 
                      w, oe, ov, td, kind >>

x2 == /\ pc[100] = "x2"
      /\ data' = IF raises THEN "none" ELSE "R"
      /\ pc' = [pc EXCEPT ![100] = "x3"]
      /\ UNCHANGED << raises, cb, extra, eset, exc, lock, taskdone, calls, 
                      seen, sup, xret, xcb, xextra, xd, xe, rdone, rd, re, k, 
                      w, oe, ov, td, kind >>

x3 == /\ pc[100] = "x3"
      /\ exc' = IF raises THEN "E" ELSE "none"
      /\ pc' = [pc EXCEPT ![100] = "x4"]
      /\ UNCHANGED << raises, cb, extra, eset, data, lock, taskdone, calls, 
                      seen, sup, xret, xcb, xextra, xd, xe, rdone, rd, re, k, 
                      w, oe, ov, td, kind >>

x4 == /\ pc[100] = "x4"
      /\ eset' = TRUE
      /\ pc' = [pc EXCEPT ![100] = "x5"]
      /\ UNCHANGED << raises, cb, extra, data, exc, lock, taskdone, calls, 
                      seen, sup, xret, xcb, xextra, xd, xe, rdone, rd, re, k, 
                      w, oe, ov, td, kind >>

x5 == /\ pc[100] = "x5"
      /\ xcb' = cb
      /\ pc' = [pc EXCEPT ![100] = "x6"]
      /\ UNCHANGED << raises, cb, extra, eset, data, exc, lock, taskdone, 
                      calls, seen, sup, xret, xextra, xd, xe, rdone, rd, re, k, 
                      w, oe, ov, td, kind >>

x6 == /\ pc[100] = "x6"
      /\ xextra' = extra
      /\ pc' = [pc EXCEPT ![100] = "x7"]
      /\ UNCHANGED << raises, cb, extra, eset, data, exc, lock, taskdone, 
                      calls, seen, sup, xret, xcb, xd, xe, rdone, rd, re, k, w, 
                      oe, ov, td, kind >>

x7 == /\ pc[100] = "x7"
      /\ lock' = 0
      /\ IF xcb = 0
            THEN /\ pc' = [pc EXCEPT ![100] = "x11"]
            ELSE /\ pc' = [pc EXCEPT ![100] = "x8"]
      /\ UNCHANGED << raises, cb, extra, eset, data, exc, taskdone, calls, 
                      seen, sup, xret, xcb, xextra, xd, xe, rdone, rd, re, k, 
                      w, oe, ov, td, kind >>

x8 == /\ pc[100] = "x8"
      /\ xd' = data
      /\ pc' = [pc EXCEPT ![100] = "x9"]
      /\ UNCHANGED << raises, cb, extra, eset, data, exc, lock, taskdone, 
                      calls, seen, sup, xret, xcb, xextra, xe, rdone, rd, re, 
                      k, w, oe, ov, td, kind >>

x9 == /\ pc[100] = "x9"
      /\ xe' = exc
      /\ pc' = [pc EXCEPT ![100] = "x10"]
      /\ UNCHANGED << raises, cb, extra, eset, data, exc, lock, taskdone, 
                      calls, seen, sup, xret, xcb, xextra, xd, rdone, rd, re, 
                      k, w, oe, ov, td, kind >>

x10 == /\ pc[100] = "x10"
       /\ calls' = Append(calls, [by |-> 100, cb |-> xcb, d |-> xd, e |-> xe, x |-> xextra])
       /\ pc' = [pc EXCEPT ![100] = "x11"]
       /\ UNCHANGED << raises, cb, extra, eset, data, exc, lock, taskdone, 
                       seen, sup, xret, xcb, xextra, xd, xe, rdone, rd, re, k, 
                       w, oe, ov, td, kind >>

x11 == /\ pc[100] = "x11"
       /\ xret' = IF raises THEN "E" ELSE "ok"
       /\ pc' = [pc EXCEPT ![100] = "Done"]
       /\ UNCHANGED << raises, cb, extra, eset, data, exc, lock, taskdone, 
                       calls, seen, sup, xcb, xextra, xd, xe, rdone, rd, re, k, 
                       w, oe, ov, td, kind >>

X == x0 \/ x1 \/ x2 \/ x3 \/ x4 \/ x5 \/ x6 \/ x7 \/ x8 \/ x9 \/ x10 \/ x11

r1(self) == /\ pc[self] = "r1"
            /\ lock = 0
            /\ lock' = self
            /\ pc' = [pc EXCEPT ![self] = "r2"]
            /\ UNCHANGED << raises, cb, extra, eset, data, exc, taskdone, 
                            calls, seen, sup, xret, xcb, xextra, xd, xe, rdone, 
                            rd, re, k, w, oe, ov, td, kind >>

r2(self) == /\ pc[self] = "r2"
            /\ IF cb # 0 /\ ~eset
                  THEN /\ sup' = (sup \cup {cb})
                  ELSE /\ TRUE
                       /\ sup' = sup
            /\ cb' = self
            /\ pc' = [pc EXCEPT ![self] = "r3"]
            /\ UNCHANGED << raises, extra, eset, data, exc, lock, taskdone, 
                            calls, seen, xret, xcb, xextra, xd, xe, rdone, rd, 
                            re, k, w, oe, ov, td, kind >>

r3(self) == /\ pc[self] = "r3"
            /\ extra' = self
            /\ pc' = [pc EXCEPT ![self] = "r4"]
            /\ UNCHANGED << raises, cb, eset, data, exc, lock, taskdone, calls, 
                            seen, sup, xret, xcb, xextra, xd, xe, rdone, rd, 
                            re, k, w, oe, ov, td, kind >>

r4(self) == /\ pc[self] = "r4"
            /\ rdone' = [rdone EXCEPT ![self] = eset]
            /\ pc' = [pc EXCEPT ![self] = "r5"]
            /\ UNCHANGED << raises, cb, extra, eset, data, exc, lock, taskdone, 
                            calls, seen, sup, xret, xcb, xextra, xd, xe, rd, 
                            re, k, w, oe, ov, td, kind >>

r5(self) == /\ pc[self] = "r5"
            /\ lock' = 0
            /\ IF ~rdone[self]
                  THEN /\ pc' = [pc EXCEPT ![self] = "r9"]
                  ELSE /\ pc' = [pc EXCEPT ![self] = "r6"]
            /\ UNCHANGED << raises, cb, extra, eset, data, exc, taskdone, 
                            calls, seen, sup, xret, xcb, xextra, xd, xe, rdone, 
                            rd, re, k, w, oe, ov, td, kind >>

r6(self) == /\ pc[self] = "r6"
            /\ rd' = [rd EXCEPT ![self] = data]
            /\ pc' = [pc EXCEPT ![self] = "r7"]
            /\ UNCHANGED << raises, cb, extra, eset, data, exc, lock, taskdone, 
                            calls, seen, sup, xret, xcb, xextra, xd, xe, rdone, 
                            re, k, w, oe, ov, td, kind >>

r7(self) == /\ pc[self] = "r7"
            /\ re' = [re EXCEPT ![self] = exc]
            /\ pc' = [pc EXCEPT ![self] = "r8"]
            /\ UNCHANGED << raises, cb, extra, eset, data, exc, lock, taskdone, 
                            calls, seen, sup, xret, xcb, xextra, xd, xe, rdone, 
                            rd, k, w, oe, ov, td, kind >>

r8(self) == /\ pc[self] = "r8"
            /\ calls' = Append(calls, [by |-> self, cb |-> self, d |-> rd[self], e |-> re[self], x |-> self])
            /\ pc' = [pc EXCEPT ![self] = "r9"]
            /\ UNCHANGED << raises, cb, extra, eset, data, exc, lock, taskdone, 
                            seen, sup, xret, xcb, xextra, xd, xe, rdone, rd, 
                            re, k, w, oe, ov, td, kind >>

r9(self) == /\ pc[self] = "r9"
            /\ TRUE
            /\ pc' = [pc EXCEPT ![self] = "Done"]
            /\ UNCHANGED << raises, cb, extra, eset, data, exc, lock, taskdone, 
                            calls, seen, sup, xret, xcb, xextra, xd, xe, rdone, 
                            rd, re, k, w, oe, ov, td, kind >>

R(self) == r1(self) \/ r2(self) \/ r3(self) \/ r4(self) \/ r5(self)
              \/ r6(self) \/ r7(self) \/ r8(self) \/ r9(self)

o1 == /\ pc[200] = "o1"
      /\ IF k < NObs
            THEN /\ \/ /\ kind' = "done"
                       /\ ov' = IF eset THEN "true" ELSE "false"
                       /\ td' = taskdone
                       /\ pc' = [pc EXCEPT ![200] = "o4"]
                       /\ w' = w
                    \/ /\ kind' = "result"
                       /\ w' = eset
                       /\ td' = taskdone
                       /\ IF ~w'
                             THEN /\ ov' = "timeout"
                                  /\ pc' = [pc EXCEPT ![200] = "o4"]
                             ELSE /\ pc' = [pc EXCEPT ![200] = "o2"]
                                  /\ ov' = ov
            ELSE /\ pc' = [pc EXCEPT ![200] = "Done"]
                 /\ UNCHANGED << w, ov, td, kind >>
      /\ UNCHANGED << raises, cb, extra, eset, data, exc, lock, taskdone, 
                      calls, seen, sup, xret, xcb, xextra, xd, xe, rdone, rd, 
                      re, k, oe >>

o2 == /\ pc[200] = "o2"
      /\ oe' = exc
      /\ pc' = [pc EXCEPT ![200] = "o3"]
      /\ UNCHANGED << raises, cb, extra, eset, data, exc, lock, taskdone, 
                      calls, seen, sup, xret, xcb, xextra, xd, xe, rdone, rd, 
                      re, k, w, ov, td, kind >>

o3 == /\ pc[200] = "o3"
      /\ IF oe # "none"
            THEN /\ ov' = exc
            ELSE /\ ov' = data
      /\ pc' = [pc EXCEPT ![200] = "o4"]
      /\ UNCHANGED << raises, cb, extra, eset, data, exc, lock, taskdone, 
                      calls, seen, sup, xret, xcb, xextra, xd, xe, rdone, rd, 
                      re, k, w, oe, td, kind >>

o4 == /\ pc[200] = "o4"
      /\ seen' = Append(seen, [k |-> kind, v |-> ov, td |-> td])
      /\ k' = k + 1
      /\ pc' = [pc EXCEPT ![200] = "o1"]
      /\ UNCHANGED << raises, cb, extra, eset, data, exc, lock, taskdone, 
                      calls, sup, xret, xcb, xextra, xd, xe, rdone, rd, re, w, 
                      oe, ov, td, kind >>

O == o1 \/ o2 \/ o3 \/ o4

(* Allow infinite stuttering to prevent deadlock on termination. *)
Terminating == /\ \A self \in ProcSet: pc[self] = "Done"
               /\ UNCHANGED vars

Next == X \/ O
           \/ (\E self \in Regs: R(self))
           \/ Terminating

Spec == /\ Init /\ [][Next]_vars
        /\ WF_vars(Next)

Termination == <>(\A self \in ProcSet: pc[self] = "Done")

\* END TRANSLATION 
=============================================================================
