SPECIFICATION Spec
CONSTANT MaxLen = 4
INVARIANT EmptyInvalid
INVARIANT AnyForeignCharInvalid
INVARIANT InvalidNeverImports
INVARIANT Emit
CHECK_DEADLOCK FALSE
