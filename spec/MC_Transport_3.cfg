SPECIFICATION Spec
CONSTANTS
  MaxLen = 3
  NTail = 3
INVARIANT Recovers
INVARIANT Emit
PROPERTY HealthyAtEnd
CHECK_DEADLOCK FALSE
