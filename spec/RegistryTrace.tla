----------------------------- MODULE RegistryTrace -----------------------------
(* registration words executed on a real SimpleJSONRPCDispatcher; after every operation each probe name is requested *)
(* through _marshaled_dispatch and (when registered) system.listMethods is called                                    *)
EXTENDS Registry, Json, IOUtils, TLCExt
Traces == JsonDeserialize(IOEnv.TRACE_FILE)
VARIABLES tid, l
T == Traces[tid]
E == T.ev[l]
TInit == tid \in 1..Len(Traces) /\ l = 1 /\ Init
Act == CASE E.op = "regf" -> RegF(E.n, E.f) [] E.op = "reginst" -> RegInst(E.k) [] OTHER -> RegIntro
TNext == l <= Len(T.ev) /\ Act /\ l' = l + 1 /\ tid' = tid
TSpec == TInit /\ [][TNext]_<<vars, tid, l>>
P == T.ev[l - 1]
ProbeOK == \A j \in 1..Len(P.probe) : P.probe[j].ran = Resolve(P.probe[j].name)
ListOK == (P.listed # <<"-">>) => ({P.listed[j] : j \in 1..Len(P.listed)} = ListMethods /\ Len(P.listed) = Cardinality(ListMethods))
AsSpecified == l = 1 \/ (ProbeOK /\ (("system.listMethods" \in DOMAIN funcs) => ListOK))
Monitor == AsSpecified \/ PrintT(<<"GROWTHFAIL", tid, "Registry", l - 1>>)
=============================================================================
