---------------------------- MODULE ClientSession ----------------------------
(***************************************************************************)
(* Spec growth (not a listed property): the life of one ServerProxy with an *)
(* attached History and one MultiCall object on top of it, against a peer   *)
(* that answers or - when told so - fails the next exchange (an HTTP 500    *)
(* answer with a body, i.e. a TransportError for the caller).               *)
(*                                                                         *)
(* State                                                                    *)
(*   jobs   : the MultiCall's job list, a sequence of "c" (call) / "n"      *)
(*            (notification) entries                                        *)
(*   wire   : what the peer has received, a sequence of messages; a message *)
(*            is <<"single", k>> or <<"batch", seq of k>>                   *)
(*   hreq / hresp : number of requests / responses stored by the History    *)
(*   conn   : the transport's cached connection, "none" | "open"; opened:  *)
(*            number of connections the peer has accepted                   *)
(*   last   : outcome of the last operation (what the caller saw)           *)
(*                                                                         *)
(* Operations (one action each, arguments as in the code):                  *)
(*   Call(f) / Notify(f)   proxy.m() / proxy._notify.m(); f: the exchange   *)
(*                         fails in the transport                           *)
(*   Add(k)                mc.m() / mc._notify.m(): appends a job           *)
(*   Run(f)                mc(): nothing at all for an empty job list;      *)
(*                         else one batch with every job in order; the job  *)
(*                         list is emptied only AFTER the exchange - a      *)
(*                         failed exchange keeps the jobs, the next run     *)
(*                         sends them again                                 *)
(*   Close                 proxy("close")(): drops the cached connection    *)
(* History.add_request happens before the exchange and add_response after   *)
(* it: a failed exchange leaves a request without response in the History.  *)
(***************************************************************************)
EXTENDS Naturals, Sequences, SequencesExt, FiniteSets, TLC
CONSTANTS MaxOps, MaxJobs
VARIABLES jobs, wire, hreq, hresp, conn, last, nops, faults, opened
vars == <<jobs, wire, hreq, hresp, conn, last, nops, faults, opened>>
Kinds == {"c", "n"}
Init == jobs = <<>> /\ wire = <<>> /\ hreq = 0 /\ hresp = 0 /\ conn = "none" /\ last = [k |-> "init", n |-> 0] /\ nops = 0 /\ faults = 0 /\ opened = 0
Step == nops < MaxOps /\ nops' = nops + 1
\* number of response objects a batch yields: one per call, none per notification
Calls(js) == Len(SelectSeq(js, LAMBDA k : k = "c"))
\* one exchange: the History notes the request, the peer receives it, then either the response is noted or the
\* transport fails (the connection cache is dropped)
Exchange(msg, fails) == /\ hreq' = hreq + 1
                        /\ wire' = Append(wire, msg)
                        /\ opened' = IF conn = "none" THEN opened + 1 ELSE opened      \* a connection is made only when none is cached
                        /\ conn' = "open"            \* the fault is a 500 answer with a body: it is drained, the connection is kept
                        /\ IF fails THEN hresp' = hresp /\ faults' = faults + 1
                           ELSE hresp' = hresp + 1 /\ faults' = faults
Call(f) == /\ Step /\ Exchange(<<"single", "c">>, f)
           /\ last' = IF f THEN [k |-> "raise", n |-> 0] ELSE [k |-> "result", n |-> 1]
           /\ UNCHANGED jobs
Notify(f) == /\ Step /\ Exchange(<<"single", "n">>, f)
             /\ last' = IF f THEN [k |-> "raise", n |-> 0] ELSE [k |-> "none", n |-> 0]
             /\ UNCHANGED jobs
Add(k) == /\ Step /\ Len(jobs) < MaxJobs /\ jobs' = Append(jobs, k)
          /\ last' = [k |-> "job", n |-> Len(jobs) + 1]
          /\ UNCHANGED <<wire, hreq, hresp, conn, faults, opened>>
Run(f) == /\ Step
          /\ IF jobs = <<>>
             THEN /\ last' = [k |-> "none", n |-> 0] /\ UNCHANGED <<jobs, wire, hreq, hresp, conn, faults, opened>>
             ELSE /\ Exchange(<<"batch", jobs>>, f)
                  /\ IF f THEN jobs' = jobs /\ last' = [k |-> "raise", n |-> 0]
                     ELSE jobs' = <<>> /\ last' = [k |-> "results", n |-> Calls(jobs)]
Close == /\ Step /\ conn' = "none" /\ last' = [k |-> "none", n |-> 0] /\ UNCHANGED <<jobs, wire, hreq, hresp, faults, opened>>
Next == (\E f \in BOOLEAN : Call(f) \/ Notify(f) \/ Run(f)) \/ (\E k \in Kinds : Add(k)) \/ Close
Spec == Init /\ [][Next]_vars

\* ---- properties of the model
TypeOK == /\ (\A i \in 1..Len(jobs) : jobs[i] \in Kinds) /\ hreq \in Nat /\ hresp \in Nat /\ conn \in {"none", "open"}
\* the History never holds more responses than requests, and exactly one request per message the peer received
HistoryMatchesWire == hresp <= hreq /\ hreq = Len(wire)
\* what the peer receives is append-only, and a batch is never empty
WireAppendOnly == [][IsPrefix(wire, wire')]_vars
NoEmptyBatch == \A i \in 1..Len(wire) : wire[i][1] = "batch" => wire[i][2] # <<>>
\* a job is sent at least once by the run that follows it (jobs survive only failed runs)
JobsOnlySurviveFailure == [][(jobs # <<>> /\ jobs' = jobs /\ wire' # wire /\ wire'[Len(wire')][1] = "batch") => last'.k = "raise"]_vars
\* a response is missing from the History exactly for the exchanges that failed (fault-free: the exact log, C01)
ResponsesMissingOnlyForFaults == hreq - hresp = faults
\* a connection is opened at most once per exchange and never while one is cached
OpenedBounded == opened <= Len(wire) /\ (conn = "open" => opened >= 1)
\* the caller sees an exception exactly when the exchange of that very operation failed
RaiseIffFault == [][(last'.k = "raise") <=> (faults' = faults + 1)]_vars
=============================================================================
