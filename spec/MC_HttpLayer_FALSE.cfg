SPECIFICATION Spec
CONSTANT GzipFirst = FALSE
INVARIANT TypeOK
INVARIANT MachineIsFunction
INVARIANT InternalErrorIff500
INVARIANT JsonOnlyWithConfigType
INVARIANT DispatchGuarded
INVARIANT Emit
PROPERTY AlwaysAnswered
