---- MODULE MC_ConfigObj ----
EXTENDS ConfigObj, Json
\* every word of exactly MaxLen mutations, printed for the replay on real Config objects
Emit == Len(word) < MaxLen \/ PrintT(ToJson([word |-> word]))
====
