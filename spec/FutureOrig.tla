---- MODULE FutureOrig ----
(* The ORIGINAL (pinned commit) FutureResult / EventData at source-line granularity; one executor, up to 2 registrars, one observer *)
EXTENDS Naturals, Sequences, FiniteSets, TLC
CONSTANTS Raises,      \* TRUE: the task raises, FALSE: it returns
          NReg         \* number of registrar threads (1..NReg), registrar r registers callback r with extra r
Reg == 1..NReg
NoCb == 0
VARIABLES cb, extra,            \* FutureResult.__callback / __extra  (0 = None)
          eset, data, exc,      \* EventData: flag, __data, __exception   ("none" | "R" | "E")
          xpc,                  \* executor pc
          rpc, rl,              \* registrar pc, locals (callback value read in __notify)
          xl,                   \* executor locals for __notify
          calls,                \* sequence of <<callback id, data, exc, extra>>
          opc, seen             \* observer pc and what it has observed
vars == <<cb, extra, eset, data, exc, xpc, rpc, rl, xl, calls, opc, seen>>

L0 == [c |-> 0, d |-> "none", e |-> "none"]
Init == /\ cb = NoCb /\ extra = 0 /\ eset = FALSE /\ data = "none" /\ exc = "none"
        /\ xpc = "call" /\ rpc = [r \in Reg |-> "s1"] /\ rl = [r \in Reg |-> L0] /\ xl = L0
        /\ calls = <<>> /\ opc = "o1" /\ seen = <<>>

\* ---- executor: execute()
XCall == /\ xpc = "call" /\ xpc' = (IF Raises THEN "r1" ELSE "k1")       \* result = method(...)
         /\ UNCHANGED <<cb, extra, eset, data, exc, rpc, rl, xl, calls, opc, seen>>
\* EventData.set(result): three lines
XK1 == /\ xpc = "k1" /\ data' = "R" /\ xpc' = "k2" /\ UNCHANGED <<cb, extra, eset, exc, rpc, rl, xl, calls, opc, seen>>
XK2 == /\ xpc = "k2" /\ exc' = "none" /\ xpc' = "k3" /\ UNCHANGED <<cb, extra, eset, data, rpc, rl, xl, calls, opc, seen>>
XK3 == /\ xpc = "k3" /\ eset' = TRUE /\ xpc' = "n1" /\ UNCHANGED <<cb, extra, data, exc, rpc, rl, xl, calls, opc, seen>>
\* EventData.raise_exception(ex): three lines
XR1 == /\ xpc = "r1" /\ data' = "none" /\ xpc' = "r2" /\ UNCHANGED <<cb, extra, eset, exc, rpc, rl, xl, calls, opc, seen>>
XR2 == /\ xpc = "r2" /\ exc' = "E" /\ xpc' = "r3" /\ UNCHANGED <<cb, extra, eset, data, rpc, rl, xl, calls, opc, seen>>
XR3 == /\ xpc = "r3" /\ eset' = TRUE /\ xpc' = "n1" /\ UNCHANGED <<cb, extra, data, exc, rpc, rl, xl, calls, opc, seen>>
\* finally: __notify(): if callback is not None / read callback / read data / read exception / read extra + call
XN1 == /\ xpc = "n1" /\ xpc' = (IF cb = NoCb THEN "done" ELSE "n2") /\ UNCHANGED <<cb, extra, eset, data, exc, rpc, rl, xl, calls, opc, seen>>
XN2 == /\ xpc = "n2" /\ xl' = [xl EXCEPT !.c = cb] /\ xpc' = "n3" /\ UNCHANGED <<cb, extra, eset, data, exc, rpc, rl, calls, opc, seen>>
XN3 == /\ xpc = "n3" /\ xl' = [xl EXCEPT !.d = data] /\ xpc' = "n4" /\ UNCHANGED <<cb, extra, eset, data, exc, rpc, rl, calls, opc, seen>>
XN4 == /\ xpc = "n4" /\ xl' = [xl EXCEPT !.e = exc] /\ xpc' = "n5" /\ UNCHANGED <<cb, extra, eset, data, exc, rpc, rl, calls, opc, seen>>
XN5 == /\ xpc = "n5" /\ calls' = Append(calls, <<xl.c, xl.d, xl.e, extra>>) /\ xpc' = "done"
       /\ UNCHANGED <<cb, extra, eset, data, exc, rpc, rl, xl, opc, seen>>
Exec == XCall \/ XK1 \/ XK2 \/ XK3 \/ XR1 \/ XR2 \/ XR3 \/ XN1 \/ XN2 \/ XN3 \/ XN4 \/ XN5

\* ---- registrar r: set_callback(cb_r, extra=r)
RS1(r) == /\ rpc[r] = "s1" /\ cb' = r /\ rpc' = [rpc EXCEPT ![r] = "s2"] /\ UNCHANGED <<extra, eset, data, exc, xpc, rl, xl, calls, opc, seen>>
RS2(r) == /\ rpc[r] = "s2" /\ extra' = r /\ rpc' = [rpc EXCEPT ![r] = "s3"] /\ UNCHANGED <<cb, eset, data, exc, xpc, rl, xl, calls, opc, seen>>
RS3(r) == /\ rpc[r] = "s3" /\ rpc' = [rpc EXCEPT ![r] = (IF eset THEN "n1" ELSE "done")] /\ UNCHANGED <<cb, extra, eset, data, exc, xpc, rl, xl, calls, opc, seen>>
RN1(r) == /\ rpc[r] = "n1" /\ rpc' = [rpc EXCEPT ![r] = (IF cb = NoCb THEN "done" ELSE "n2")] /\ UNCHANGED <<cb, extra, eset, data, exc, xpc, rl, xl, calls, opc, seen>>
RN2(r) == /\ rpc[r] = "n2" /\ rl' = [rl EXCEPT ![r].c = cb] /\ rpc' = [rpc EXCEPT ![r] = "n3"] /\ UNCHANGED <<cb, extra, eset, data, exc, xpc, xl, calls, opc, seen>>
RN3(r) == /\ rpc[r] = "n3" /\ rl' = [rl EXCEPT ![r].d = data] /\ rpc' = [rpc EXCEPT ![r] = "n4"] /\ UNCHANGED <<cb, extra, eset, data, exc, xpc, xl, calls, opc, seen>>
RN4(r) == /\ rpc[r] = "n4" /\ rl' = [rl EXCEPT ![r].e = exc] /\ rpc' = [rpc EXCEPT ![r] = "n5"] /\ UNCHANGED <<cb, extra, eset, data, exc, xpc, xl, calls, opc, seen>>
RN5(r) == /\ rpc[r] = "n5" /\ calls' = Append(calls, <<rl[r].c, rl[r].d, rl[r].e, extra>>) /\ rpc' = [rpc EXCEPT ![r] = "done"]
          /\ UNCHANGED <<cb, extra, eset, data, exc, xpc, rl, xl, opc, seen>>
Registrar(r) == RS1(r) \/ RS2(r) \/ RS3(r) \/ RN1(r) \/ RN2(r) \/ RN3(r) \/ RN4(r) \/ RN5(r)

\* ---- observer: result(0) then done()   (result: r = event.wait(0); if exception is None: return r else raise)
O1 == /\ opc = "o1" /\ seen' = Append(seen, IF eset THEN "set" ELSE "unset") /\ opc' = "o2"   \* event.wait(0)
      /\ UNCHANGED <<cb, extra, eset, data, exc, xpc, rpc, rl, xl, calls>>
O2 == /\ opc = "o2"   \* if self.__exception is None: return result ; else raise
      /\ seen' = Append(seen, IF exc # "none" THEN "raisedE" ELSE IF seen[Len(seen)] = "set" THEN "returned" ELSE "timeout")
      /\ opc' = "o3" /\ UNCHANGED <<cb, extra, eset, data, exc, xpc, rpc, rl, xl, calls>>
O3 == /\ opc = "o3" /\ seen' = Append(seen, IF eset THEN "done" ELSE "notdone") /\ opc' = "end"   \* done()
      /\ UNCHANGED <<cb, extra, eset, data, exc, xpc, rpc, rl, xl, calls>>
Obs == O1 \/ O2 \/ O3

Next == Exec \/ Obs \/ \E r \in Reg : Registrar(r)
Spec == Init /\ [][Next]_vars

Count(r) == Cardinality({i \in 1..Len(calls) : calls[i][1] = r})
AtMostOnce == \A r \in Reg : Count(r) <= 1
Quiescent == xpc = "done" /\ \A r \in Reg : rpc[r] = "done"
LastWinsOnce == Quiescent => (cb # NoCb => Count(cb) = 1)
ArgsRight == \A i \in 1..Len(calls) : calls[i][2] = (IF Raises THEN "none" ELSE "R") /\ calls[i][3] = (IF Raises THEN "E" ELSE "none") /\ calls[i][4] = calls[i][1]
Consistent == (opc = "end" /\ seen[2] \in {"raisedE", "returned"}) => seen[3] = "done"
====
