---- MODULE MC_TPTrace ----
EXTENDS ThreadPoolTrace
TrTasks == 1..6
TrOps == [c \in 1..2 |-> 1000]
====
