----------------------------- MODULE FutureObs -----------------------------
(* Stage B for C16: the property predicates evaluated by TLC on what a user of FutureResult observes in a   *)
(* recorded execution of the real code: callback invocations, done()/result() answers, how execute() and     *)
(* set_callback() returned.  State is assigned / accumulated from the log; any event is accepted.             *)
EXTENDS Naturals, Sequences, FiniteSets, TLC, Json, IOUtils
Traces == JsonDeserialize(IOEnv.TRACE_FILE)
VARIABLES tid, l, cnt, pos, frozen
T == Traces[tid]
N == Len(T.ev)
E == T.ev[l]
RegIds == 1..T.cfg.nreg
Outcome == IF T.cfg.raises THEN "E" ELSE "R"

Init == tid \in 1..Len(Traces) /\ l = 0 /\ cnt = [r \in 1..8 |-> 0] /\ pos = FALSE /\ frozen = <<>>
Positive(e) == e.k = "obs_end" /\ ((e.kind = "done" /\ e.v = "true") \/ (e.kind = "result" /\ e.v # "timeout"))
Next == /\ l < N /\ l' = l + 1 /\ tid' = tid
        /\ LET e == T.ev[l + 1] IN
           /\ cnt' = IF e.k = "cb" /\ e.c.cb \in 1..8 THEN [cnt EXCEPT ![e.c.cb] = @ + 1] ELSE cnt
           /\ pos' = (pos \/ Positive(e))
           /\ frozen' = IF frozen = <<>> /\ e.st.eset THEN <<e.st.data, e.st.exc>> ELSE frozen
Spec == Init /\ [][Next]_<<tid, l, cnt, pos, frozen>>

\* done() is not True and result(0) times out until the task has finished; td = "the body was over" at the read
NotDoneBeforeFinish == (E.k = "obs_end" /\ E.kind = "done" /\ E.v = "true") => E.td
ResultOnlyAfterFinish == (E.k = "obs_end" /\ E.kind = "result" /\ E.v # "timeout") => E.td
ResultFaithful == (E.k = "obs_end" /\ E.kind = "result") => E.v \in {"timeout", Outcome}
\* pos (before this event) = an earlier observation of the same observer was positive
ConsistentAfter == (E.k = "obs_end" /\ l > 1 /\
                      \E i \in 1..(l - 1) : Positive(T.ev[i])) => Positive(E)
AtMostOncePerRegistration == \A r \in RegIds : cnt[r] <= 1
ArgsRight == E.k = "cb" => /\ E.c.d = (IF T.cfg.raises THEN "none" ELSE "R")
                           /\ E.c.e = (IF T.cfg.raises THEN "E" ELSE "none")
                           /\ E.c.x = E.c.cb
NoEarlyCallback == E.k = "cb" => E.st.taskdone
\* the published outcome never changes, whatever the callbacks do
OutcomeStable == (frozen # <<>>) => (E.st.eset /\ <<E.st.data, E.st.exc>> = frozen)
\* execute() ends with the task's own outcome; set_callback never raises (callback failures are contained)
Contained == /\ E.k = "exec_ret" => E.v = (IF T.cfg.raises THEN "E" ELSE "ok")
             /\ E.k = "reg_ret" => E.v = "ok"
\* end of a complete execution: exactly one invocation per registration, unless it may have been superseded
\* before completion (another registration was still pending or came later, before the outcome was published)
AtEnd == l = N /\ T.end = "done" /\ N > 0
MaySup(r) == \E s \in RegIds : s # r /\ T.reg[s].ret > T.reg[r].call /\ (T.completion = 0 \/ T.reg[s].call < T.completion)
ExactlyOnceAtEnd == AtEnd => \A r \in RegIds : IF MaySup(r) THEN cnt[r] <= 1 ELSE cnt[r] = 1

Flag(name) == PrintT(<<"PROPFAIL", tid, name, l>>)
Monitor == l = 0 \/
           /\ NotDoneBeforeFinish \/ Flag("NotDoneBeforeFinish")
           /\ ResultOnlyAfterFinish \/ Flag("ResultOnlyAfterFinish")
           /\ ResultFaithful \/ Flag("ResultFaithful")
           /\ ConsistentAfter \/ Flag("ConsistentAfter")
           /\ AtMostOncePerRegistration \/ Flag("AtMostOncePerRegistration")
           /\ ArgsRight \/ Flag("ArgsRight")
           /\ NoEarlyCallback \/ Flag("NoEarlyCallback")
           /\ OutcomeStable \/ Flag("OutcomeStable")
           /\ Contained \/ Flag("Contained")
           /\ ExactlyOnceAtEnd \/ Flag("ExactlyOnceAtEnd")
=============================================================================
