------------------------------- MODULE History -------------------------------
(* Spec growth (beyond the listed properties): jsonrpclib.history.History as a state machine.                 *)
EXTENDS Naturals, Sequences, TLC
CONSTANTS Items, MaxOps
VARIABLES requests, responses, nops
vars == <<requests, responses, nops>>
Init == requests = <<>> /\ responses = <<>> /\ nops = 0
AddRequest(x) == nops < MaxOps /\ requests' = Append(requests, x) /\ UNCHANGED responses /\ nops' = nops + 1
AddResponse(x) == nops < MaxOps /\ responses' = Append(responses, x) /\ UNCHANGED requests /\ nops' = nops + 1
Clear == nops < MaxOps /\ requests' = <<>> /\ responses' = <<>> /\ nops' = nops + 1
Next == (\E x \in Items : AddRequest(x) \/ AddResponse(x)) \/ Clear
Spec == Init /\ [][Next]_vars
\* the `request` / `response` properties: the latest stored one, or None ("none")
LastOf(s) == IF s = <<>> THEN "none" ELSE s[Len(s)]
AppendOnlyUntilClear == [][(requests' = requests \/ requests' = <<>> \/ \E x \in Items : requests' = Append(requests, x))]_vars
=============================================================================
