--------------------------- MODULE ClientHistJudge ---------------------------
(* C06 / C05 (client half) on histories: after an exchange that went wrong in any way, a JSON-RPC error reported by   *)
(* the next healthy exchange on the same proxy is raised as ProtocolError (pre-defined code) / AppError (other code)   *)
(* carrying that code - never returned, never another exception type.                                                  *)
EXTENDS Naturals, Sequences, TLC, Json, IOUtils
Cases == JsonDeserialize(IOEnv.CASES_FILE)
VARIABLE i
Init == i \in 1..Len(Cases)
Next == UNCHANGED i
Spec == Init /\ [][Next]_i
R == Cases[i]
ErrorSurfaces == IF R.want = "value"
                 THEN R.second.kind = "return" /\ R.second.val = R.expected      \* a result is returned unchanged, character for character
                 ELSE /\ R.second.kind = (IF R.want = "protocol" THEN "ProtocolError" ELSE "AppError")
                      /\ Len(R.second.args) >= 1 /\ R.second.args[1] = R.code
Monitor == ErrorSurfaces \/ PrintT(<<"PROPFAIL", i, "ErrorSurfacesAfterFault">>)
=============================================================================
