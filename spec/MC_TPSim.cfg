SPECIFICATION SimSpec
CONSTANTS
  NW = 4
  NC = 1
  Tasks <- T3
  MCGated <- G2
  MaxOps <- Ops1_7
  WithClear = FALSE
  FixJoin = FALSE
  FixGrow = FALSE
  FixStart = FALSE
  Depth = 100
INVARIANT Dump
CHECK_DEADLOCK FALSE
