----------------------------- MODULE HistoryTrace -----------------------------
(* operation sequences executed on a real History object, replayed as actions of History.tla *)
EXTENDS History, Json, IOUtils, TLCExt
Traces == JsonDeserialize(IOEnv.TRACE_FILE)
VARIABLES tid, l
T == Traces[tid]
E == T.ev[l]
TInit == tid \in 1..Len(Traces) /\ l = 1 /\ Init
Act == CASE E.op = "add_request" -> AddRequest(E.x) [] E.op = "add_response" -> AddResponse(E.x) [] OTHER -> Clear
TNext == l <= Len(T.ev) /\ Act /\ l' = l + 1 /\ tid' = tid
TSpec == TInit /\ [][TNext]_<<vars, tid, l>>
P == T.ev[l - 1]
AsSpecified == l = 1 \/ (P.requests = requests /\ P.responses = responses /\ P.request = LastOf(requests) /\ P.response = LastOf(responses))
Monitor == AsSpecified \/ PrintT(<<"GROWTHFAIL", tid, "History", l - 1>>)
=============================================================================
