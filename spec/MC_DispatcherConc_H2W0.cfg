SPECIFICATION Spec
CONSTANTS
  Handlers <- H2
  Workers <- W0
  ReqKinds <- AllKinds
  defaultInitValue = 0
INVARIANT FormRule
INVARIANT NotifNeverAnswered
INVARIANT AtMostOnce
INVARIANT ExactlyOnceWhenDrained
INVARIANT EveryoneAnswers
PROPERTY ServerConfigConstant
PROPERTY HandlersTerminate
PROPERTY Drains
CHECK_DEADLOCK FALSE
