---- MODULE MC_Headers ----
EXTENDS Headers, Json
MCLow == [n \in {"x-a", "X-A", "x-A", "x-b", "X-B", "Content-Length", "CONTENT-type", "User-Agent", "user-AGENT", "Host", "hOST"} |->
           CASE n \in {"x-a", "X-A", "x-A"} -> "x-a" [] n \in {"x-b", "X-B"} -> "x-b" [] n = "Content-Length" -> "content-length"
             [] n = "CONTENT-type" -> "content-type" [] n \in {"Host", "hOST"} -> "host" [] OTHER -> "user-agent"]
MCDicts == [e |-> <<>>,
            a1 |-> <<<<"x-a", "1">>>>, A2 |-> <<<<"X-A", "2">>>>, a3 |-> <<<<"x-A", "3">>>>,
            b1 |-> <<<<"x-b", "1">>>>, ab |-> <<<<"X-A", "4">>, <<"X-B", "5">>>>,
            cl |-> <<<<"Content-Length", "0">>, <<"x-b", "6">>>>, ct |-> <<<<"CONTENT-type", "text/evil">>>>,
            ua |-> <<<<"User-Agent", "ua1">>>>, UA |-> <<<<"user-AGENT", "ua2">>, <<"x-a", "7">>>>,
            ho |-> <<<<"Host", "backend.internal">>>>, HO |-> <<<<"hOST", "second.internal">>, <<"x-b", "8">>>>,
            \* (a truth value under the raw name of a1: the harness hands in the Python object True, which is EQUAL to the
            \* integer 1 that a1 may carry, and is sent as the text "True")
            t1 |-> <<<<"x-a", "True">>>>]
\* a history is printed when it is complete
VARIABLE hist
HInit == Init /\ hist = <<stack[1]>>
HNext == Next /\ hist' = Append(hist, last')
HSpec == HInit /\ [][HNext]_<<vars, hist>>
Emit == nev < MaxEvents \/ PrintT(ToJson([h |-> hist]))
====
