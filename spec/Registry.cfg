SPECIFICATION Spec
CONSTANT MaxOps = 5
INVARIANT TableFirst
INVARIANT PrivateOnlyByTable
INVARIANT ListedAreCallable
PROPERTY Monotone
CHECK_DEADLOCK FALSE
