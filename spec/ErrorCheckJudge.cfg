SPECIFICATION Spec
INVARIANT Monitor
INVARIANT AimOK
CHECK_DEADLOCK FALSE
