SPECIFICATION TSpec
CONSTANTS
  Dicts <- TDicts
  Low <- TLow
  MaxEvents = 1000
INVARIANT Monitor
CHECK_DEADLOCK FALSE
