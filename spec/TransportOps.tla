------------------------------ MODULE TransportOps ---------------------------
(***************************************************************************)
(* C19: one ServerProxy (cached keep-alive connection, the retry loop       *)
(* inherited from xmlrpc.client.Transport.request, single_request of        *)
(* jsonrpclib) against a peer that treats each call according to a fault    *)
(* item.  State: the cached connection ("none" | "open" | "unread" = a      *)
(* response object that was never read is still attached to it | "stale" = *)
(* the peer closed it after a truncated body and the client has not noticed *)
(* yet).                                                                    *)
(***************************************************************************)
EXTENDS Naturals, Sequences, FiniteSets, TLC
Items == {"H", "HC", "RF", "CB", "RS", "E4L", "E5L", "E5N", "BS", "B3", "B103", "B104", "TR", "TRC", "E0", "NJ", "S202", "S203"}
Status(it) == CASE it = "E4L" -> 404 [] it = "E5L" -> 500 [] it = "E5N" -> 503 [] it = "BS" -> 204 [] it = "B3" -> 304 [] it = "B103" -> 103 [] it = "B104" -> 104
                [] it = "S202" -> 202 [] it = "S203" -> 203 [] OTHER -> 200
NonOK(it) == Status(it) # 200
\* outcome of one call: [o |-> "own" | "te" | "raise", status, conn (afterwards), seen (requests of this call the peer received)]
Outcome(conn, it) ==
  IF conn = "unread"
  THEN \* the request goes out on the old connection, getresponse() refuses (ResponseNotReady), the transport closes
       [o |-> "raise", status |-> 0, conn |-> "none", seen |-> IF it = "RF" THEN 0 ELSE 1]
  ELSE IF conn = "stale" /\ it \in {"CB", "RS"}
  THEN \* the peer has closed the cached connection without the client noticing: the first attempt dies on it and
       \* uses up the single retry, so a second disconnect surfaces
       [o |-> "raise", status |-> 0, conn |-> "none", seen |-> 1]
  ELSE CASE it = "H"  -> [o |-> "own", status |-> 200, conn |-> "open", seen |-> 1]
         [] it = "HC" -> [o |-> "own", status |-> 200, conn |-> "none", seen |-> 1]
         [] it = "RF" -> [o |-> "raise", status |-> 0, conn |-> "none", seen |-> 0]
         [] it \in {"CB", "RS"} -> [o |-> "own", status |-> 200, conn |-> "open", seen |-> 2]      \* retried once, transparently
         [] it \in {"E4L", "E5L", "S202", "S203"} -> [o |-> "te", status |-> Status(it), conn |-> "open", seen |-> 1]   \* drained
         [] it = "E5N" -> [o |-> "te", status |-> 503, conn |-> "none", seen |-> 1]
         [] it \in {"BS", "B3", "B103", "B104"} -> [o |-> "te", status |-> Status(it), conn |-> "unread", seen |-> 1]
         [] it = "TR" -> [o |-> "raise", status |-> 0, conn |-> "stale", seen |-> 1]
         \* a chunked body cut after the client has parsed part of it: the read raises, the transport closes the connection
         [] it = "TRC" -> [o |-> "raise", status |-> 0, conn |-> "none", seen |-> 1]
         [] it \in {"E0", "NJ"} -> [o |-> "raise", status |-> 0, conn |-> "open", seen |-> 1]
=============================================================================
