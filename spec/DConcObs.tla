------------------------------ MODULE DConcObs ------------------------------
(* Stage B for C13 / C04: the property predicates on what is observable in a recorded execution of the real     *)
(* dispatcher: the field-by-field snapshots of the server Config and of the shared default Config at every        *)
(* event, the form of each reply against its own request, the execution counters of the registered callables.     *)
EXTENDS Naturals, Integers, Sequences, FiniteSets, TLC, Json, IOUtils
Traces == JsonDeserialize(IOEnv.TRACE_FILE)
VARIABLES tid, l
T == Traces[tid]
N == Len(T.ev)
E == T.ev[l]
Init == tid \in 1..Len(Traces) /\ l = 0
Next == l < N /\ l' = l + 1 /\ tid' = tid
Spec == Init /\ [][Next]_<<tid, l>>
NH == T.cfg.nh
K(h) == T.cfg.kinds[h]
\* C13: serving requests never changes the server's Config nor the shared default Config - not even transiently
ConfigUntouched == E.st.server = T.init.server /\ E.st.deflt = T.init.deflt
\* C13: the form of a reply depends only on its own request and on the configured server version
WantForm(h) == IF K(h).valid /\ K(h).notif THEN "none"
               ELSE IF K(h).valid /\ ~K(h).jr THEN "1" ELSE T.cfg.sv
Form == E.k = "ret" => (E.val = WantForm(E.h) \/ (~K(E.h).valid /\ E.val \in {"1", "2"}))
\* C04: never answered, executed at most once at any time and exactly once when everything has drained
NotifNeverAnswered == (E.k = "ret" /\ K(E.h).valid /\ K(E.h).notif) => E.val = "none"
\* C02 under concurrency: the dispatcher never raises and every request terminates, whatever is served meanwhile
NoRaiseConc == E.k = "ret" => E.val # "raised"
TerminatesConc == l = N => T.end # "deadlock"
\* C03 under concurrency: the reply to a call carries the id of that very call, whatever is served meanwhile
OwnId == E.k = "ret" => E.obj # -1
AtMostOnce == \A h \in 1..NH : E.st.execs[h] <= 1
AtEnd == l = N /\ T.end = "done" /\ N > 0
ExactlyOnceWhenDrained == AtEnd => \A h \in 1..NH : E.st.execs[h] = (IF K(h).valid THEN 1 ELSE 0)
Flag(name) == PrintT(<<"PROPFAIL", tid, name, l>>)
Monitor == l = 0 \/
           /\ ConfigUntouched \/ Flag("ConfigUntouched")
           /\ Form \/ Flag("Form")
           /\ NotifNeverAnswered \/ Flag("NotifNeverAnswered")
           /\ OwnId \/ Flag("OwnId")
           /\ NoRaiseConc \/ Flag("NoRaiseConc")
           /\ TerminatesConc \/ Flag("TerminatesConc")
           /\ AtMostOnce \/ Flag("AtMostOnce")
           /\ ExactlyOnceWhenDrained \/ Flag("ExactlyOnceWhenDrained")
=============================================================================
