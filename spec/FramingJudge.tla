----------------------------- MODULE FramingJudge -----------------------------
(* C17 judge: predicates on recorded reads / emissions of the real request handler, transport, server and CGI      *)
(* handler.  Texts of small bodies are compared by TLC as sequences of code points; for bodies beyond that the      *)
(* harness' equality flag is asserted.                                                                             *)
EXTENDS Naturals, Sequences, FiniteSets, TLC, Json, IOUtils
Cases == JsonDeserialize(IOEnv.CASES_FILE)
VARIABLE i
Init == i \in 1..Len(Cases)
Next == UNCHANGED i
Spec == Init /\ [][Next]_i
R == Cases[i]
Target(unix, path, query) == (IF unix THEN "/" ELSE IF path = "" THEN "/" ELSE path) \o (IF query = "" THEN "" ELSE "?" \o query)
SchemeOK(s) == s \in {"http", "https", "unix+http"}
IsUnix(s) == s \in {"unix+http", "unix+https", "unix+ftp", "unix+"}
\* reassembly is independent of how the bytes are split into reads
ReassemblyIndependent == R.leg \in {"server", "client"} => (R.err = "" /\ R.status = "200" /\ R.equal /\ R.handed = R.text)
\* every emitted message declares the byte length of its body and the configured content type
LengthExact == R.leg \in {"server", "emit"} => (R.err = "" /\ R.clen = <<R.outlen>> /\ R.ctype = <<R.cfgtype>>)
\* the request target is the path plus the query, unchanged
TargetExact == (R.leg = "target" /\ SchemeOK(R.scheme)) =>
                  /\ R.built /\ R.exc = "" /\ R.target = Target(IsUnix(R.scheme), R.path, R.query)
                  /\ (R.scheme = "http" => R.wire = R.target)
BadSchemeRejectedAtBuild == (R.leg = "target" /\ ~SchemeOK(R.scheme) /\ R.scheme # "unix+https") => (~R.built /\ R.exc \in {"OSError", "IOError"})
Flag(name) == PrintT(<<"PROPFAIL", i, name>>)
Monitor == /\ ReassemblyIndependent \/ Flag("ReassemblyIndependent")
           /\ LengthExact \/ Flag("LengthExact")
           /\ TargetExact \/ Flag("TargetExact")
           /\ BadSchemeRejectedAtBuild \/ Flag("BadSchemeRejectedAtBuild")
=============================================================================
