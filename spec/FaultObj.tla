------------------------------- MODULE FaultObj -------------------------------
(***************************************************************************)
(* Spec growth (not a listed property): one jsonrpclib.Fault object as a    *)
(* state machine.  response(rpcid, version) / dump(rpcid, version) REMEMBER *)
(* a truthy rpcid on the object (a falsy one - None, 0, "" - is ignored and *)
(* the remembered id is used), the version argument overrides the one of    *)
(* the Fault's Config for that call only, error() exposes code / message /  *)
(* data unchanged.  A Fault shared between requests therefore leaks the id  *)
(* of an earlier request into a later one whose own id is falsy - which is  *)
(* why the server never calls these methods on a Fault returned by user     *)
(* code (it goes through jsonrpclib.dump, which does not touch the object). *)
(***************************************************************************)
EXTENDS Naturals, Sequences, FiniteSets, TLC
CONSTANTS MaxOps
Ids == {"none", "zero", "empty", "i1", "i2"}          \* None, 0, "", and two truthy ids
Truthy(i) == i \in {"i1", "i2"}
Vers == {"unset", "1", "2"}
VARIABLES rid, cfgver, nops, out
vars == <<rid, cfgver, nops, out>>
Init == rid \in Ids /\ cfgver \in {"1", "2"} /\ nops = 0 /\ out = [id |-> "-", form |-> "-"]
\* both methods behave alike (one returns text, the other the dictionary)
Emit(r, v) == /\ nops < MaxOps /\ nops' = nops + 1
              /\ rid' = IF Truthy(r) THEN r ELSE rid
              /\ out' = [id |-> rid', form |-> IF v = "unset" THEN cfgver ELSE v]
              /\ UNCHANGED cfgver
Next == \E r \in Ids, v \in Vers : Emit(r, v)
Spec == Init /\ [][Next]_vars
\* ---- properties
\* once a truthy id has been given, a later falsy one never clears it
Sticky == [][Truthy(rid) => Truthy(rid')]_vars
\* the id sent is the one given with the call when it is truthy
OwnIdWhenTruthy == [][\A r \in Ids, v \in Vers : (Emit(r, v) /\ Truthy(r)) => out'.id = r]_vars
\* the version argument never changes the Fault's own configuration
ConfigKept == [][cfgver' = cfgver]_vars
=============================================================================
