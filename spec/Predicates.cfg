SPECIFICATION Spec
INVARIANT OnlySequencesAreBatches
CHECK_DEADLOCK FALSE
