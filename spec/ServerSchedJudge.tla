--------------------------- MODULE ServerSchedJudge ---------------------------
(* C12 judge (schedule tier): executions of the real PooledJSONRPCServer over in-memory connections under the       *)
(* controlled scheduler.                                                                                             *)
EXTENDS Naturals, Sequences, FiniteSets, TLC, Json, IOUtils
Cases == JsonDeserialize(IOEnv.CASES_FILE)
VARIABLE i
Init == i \in 1..Len(Cases)
Next == UNCHANGED i
Spec == Init /\ [][Next]_i
R == Cases[i]
Complete == R.end = "done"
\* every connection gets the response to that very request (no cross-talk), also after a malformed or failing one
OwnReply == Complete => \A k \in 1..Len(R.reqs) : LET q == R.reqs[k] IN q.answered /\ q.err = "" /\ q.tokens = q.want
\* no lost or duplicated executions
ExecOnce == Complete => \A k \in 1..Len(R.reqs) : LET q == R.reqs[k] IN
              /\ q.execs = (IF q.kind \in {"invalid", "truncated"} THEN 0 ELSE 1)
              /\ (q.kind = "batch" => q.execs2 = 1) /\ (q.kind = "notify" => q.execsn = 1)
\* server_close() returns once in-flight requests complete, and then every worker of the pool has terminated
CloseTerminates == (Complete /\ R.closed) => R.close_returned
NoDeadlock == R.end # "deadlock"
\* an accepted connection is always answered, whatever the schedule (a stranded request shows as a blocked close)
EveryRequestAnswered == R.end \in {"done", "deadlock"} => \A k \in 1..Len(R.reqs) : R.reqs[k].answered
PoolWorkersDieAfter == (Complete /\ R.close_returned) => R.alive_workers = <<>>
Flag(name) == PrintT(<<"PROPFAIL", i, name>>)
Monitor == /\ OwnReply \/ Flag("OwnReply")
           /\ ExecOnce \/ Flag("ExecOnce")
           /\ CloseTerminates \/ Flag("CloseTerminates")
           /\ NoDeadlock \/ Flag("CloseTerminates")
           /\ PoolWorkersDieAfter \/ Flag("PoolWorkersDieAfter")
           /\ EveryRequestAnswered \/ Flag("EveryRequestAnswered")
=============================================================================
