SPECIFICATION Spec
CONSTANT MaxN = 2
INVARIANT OneToOne
INVARIANT NotifSilent
INVARIANT RejectedRunNothing
INVARIANT FormRule
INVARIANT Emit
CHECK_DEADLOCK FALSE
