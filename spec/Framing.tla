------------------------------- MODULE Framing -------------------------------
(***************************************************************************)
(* C17: wire framing.  A body is a sequence of characters, each with a      *)
(* UTF-8 width 1..4; the wire is the sequence of bytes <<char index, byte   *)
(* index>>; a chunking is a sequence of read lengths.  The server's read    *)
(* loop (SimpleJSONRPCRequestHandler.do_POST) and the client's response     *)
(* buffer (JSONTarget) are the same state machine: append what each read    *)
(* returns, decrement the remaining size, decode.  DecodeOnce selects the   *)
(* repaired algorithm (raw chunks joined, decoded once) or the original one *)
(* of the pinned commit (each read decoded separately: a character split by *)
(* a read boundary cannot be decoded).                                      *)
(***************************************************************************)
EXTENDS Naturals, Sequences, FiniteSets, TLC
CONSTANTS MaxChars, MaxRead, DecodeOnce
Widths == 1..4
RECURSIVE BytesOf(_, _)
BytesOf(ws, i) == IF i > Len(ws) THEN <<>> ELSE [b \in 1..ws[i] |-> <<i, b>>] \o BytesOf(ws, i + 1)
Wire(ws) == BytesOf(ws, 1)
\* a byte string decodes iff it is a sequence of complete characters
Complete(bs, ws) == /\ (bs # <<>> => bs[1][2] = 1 /\ bs[Len(bs)][2] = ws[bs[Len(bs)][1]])
                    /\ \A j \in 1..(Len(bs) - 1) : (bs[j + 1] = <<bs[j][1], bs[j][2] + 1>>) \/ (bs[j][2] = ws[bs[j][1]] /\ bs[j + 1][2] = 1)
Chars(bs) == SelectSeq(bs, LAMBDA b : b[2] = 1)
VARIABLES ws,          \* the body (widths of its characters)
          remaining,   \* size_remaining
          pos,         \* bytes consumed from the wire
          raw,         \* bytes collected so far (DecodeOnce)
          text,        \* characters decoded so far (~DecodeOnce)
          state        \* "reading" | "done" | "error"
vars == <<ws, remaining, pos, raw, text, state>>
Bodies == UNION {[1..n -> Widths] : n \in 0..MaxChars}
Init == /\ ws \in Bodies /\ remaining = Len(Wire(ws)) /\ pos = 0 /\ raw = <<>> /\ text = <<>> /\ state = "reading"
\* one read returns between 1 and min(remaining, MaxRead) bytes (a short read is possible on an unbuffered stream)
Read(n) == /\ state = "reading" /\ remaining > 0 /\ n \in 1..remaining /\ n <= MaxRead
           /\ LET chunk == SubSeq(Wire(ws), pos + 1, pos + n) IN
              IF DecodeOnce
              THEN raw' = raw \o chunk /\ UNCHANGED <<text, state>>
              ELSE IF Complete(chunk, ws) THEN text' = text \o Chars(chunk) /\ UNCHANGED <<raw, state>>
                   ELSE state' = "error" /\ UNCHANGED <<raw, text>>
           /\ pos' = pos + n /\ remaining' = remaining - n /\ UNCHANGED ws
Finish == /\ state = "reading" /\ remaining = 0
          /\ IF DecodeOnce THEN (IF Complete(raw, ws) THEN text' = Chars(raw) /\ state' = "done" ELSE state' = "error" /\ UNCHANGED text)
             ELSE state' = "done" /\ UNCHANGED text
          /\ UNCHANGED <<ws, remaining, pos, raw>>
Next == (\E n \in 1..MaxRead : Read(n)) \/ Finish
Spec == Init /\ [][Next]_vars /\ WF_vars(Next)
\* C17: for every body and every chunking the decoded text equals the decoding of the whole
ReassemblyIndependent == /\ state # "error"
                         /\ state = "done" => text = [i \in 1..Len(ws) |-> <<i, 1>>]
Terminates == <>(state = "done")
\* ---- request target and scheme acceptance (pure functions)
Target(unix, path, query) == (IF unix THEN "/" ELSE IF path = "" THEN "/" ELSE path) \o (IF query = "" THEN "" ELSE "?" \o query)
SchemeOK(s) == s \in {"http", "https", "unix+http"}
=============================================================================
