--------------------------- MODULE ConfigObjJudge ---------------------------
(* NoAliasing evaluated by TLC on mutation words executed on real Config objects (snapshots through the bridge). *)
EXTENDS Values, Json, IOUtils, Naturals, Sequences
Cases == JsonDeserialize(IOEnv.CASES_FILE)
VARIABLE i
Init == i \in 1..Len(Cases)
Next == UNCHANGED i
Spec == Init /\ [][Next]_i
R == Cases[i]
Fields == {"version", "content_type", "user_agent", "use_jsonclass", "serialize_method", "ignore_attribute", "classes", "serialize_handlers"}
Touched(s) == {R.word[j].f : j \in {x \in 1..Len(R.word) : R.word[x].side = s}}
F(snap, f) == Get(snap, "s:" \o f)
NoAliasing == \A s \in {"orig", "copy"} : \A f \in Fields : f \notin Touched(s) => F(R.final[s], f) = F(R.base[s], f)
CopyEqualsOriginal == R.equalcopy
Monitor == /\ NoAliasing \/ PrintT(<<"PROPFAIL", i, "NoAliasing">>)
           /\ CopyEqualsOriginal \/ PrintT(<<"PROPFAIL", i, "CopyEqualsOriginal">>)
=============================================================================
