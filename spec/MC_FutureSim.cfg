SPECIFICATION SimSpec
CONSTANTS
  Regs <- R2
  NObs = 3
  defaultInitValue = 0
  Depth = 45
INVARIANT Dump
CHECK_DEADLOCK FALSE
