--------------------------- MODULE DispatcherConc ---------------------------
(***************************************************************************)
(* Concurrent request handling by one SimpleJSONRPCDispatcher: per-request  *)
(* version adaptation (C13) and hand-off of notifications to a thread pool  *)
(* (C04), at the granularity of single accesses to Config.version - the     *)
(* only state the handlers share.  Every label is one operation the harness *)
(* observes (event kind in brackets).  The pool is abstract (PoolContract:  *)
(* an accepted task is executed exactly once by some worker; ThreadPool.tla *)
(* is checked against that separately).                                      *)
(***************************************************************************)
EXTENDS Naturals, Sequences, FiniteSets, TLC

CONSTANTS Handlers,   \* request threads (naturals 1..n)
          Workers,    \* pool worker ids (naturals 101..); {} = no notification pool
          ReqKinds    \* subset of RequestKinds to choose from
\* request kinds: jr = has a "jsonrpc" member ; notif ; valid
RK(jr, notif, valid) == [jr |-> jr, notif |-> notif, valid |-> valid]
RequestKinds == {RK(j, n, v) : j \in BOOLEAN, n \in BOOLEAN, v \in BOOLEAN}
Obj(h) == 1000 + h           \* identity of the private Config copy made for handler h
Server == 1
Default == 2

(* --fair algorithm DispatcherConc {
  variables sv \in {"1", "2"},                         \* configured server version (fixed by Init)
            ver = [o \in {Server, Default} \cup {Obj(h) : h \in Handlers} |->
                     IF o = Server THEN sv ELSE IF o = Default THEN "2" ELSE "none"],
            req \in [Handlers -> ReqKinds],             \* what each handler serves (fixed by Init)
            pool \in (IF Workers = {} THEN {FALSE} ELSE BOOLEAN),   \* is a notification pool installed? (fixed by Init)
            pq = {},                                    \* tasks accepted by the notification pool, not yet run
            execs = [h \in Handlers |-> 0],
            reply = [h \in Handlers |-> "none"];        \* "none" | "1" | "2"  (form of the reply)

  \* every label is exactly one event of the harness
  process (H \in Handlers) variables v = "", cv = "", ref = Server; {
    h0: if (~req[self].valid) { goto f1 }                             \* [call]     validate_request fails -> Fault of the server config
        else if (req[self].jr) { goto n1 };                          \*            "jsonrpc" in request: keep the server config
    t1: v := ver[Server];                                            \* [rd_version server]  self.json_config.version >= 2
        if (v # "2") { goto n1 };
    c1: cv := ver[Server];                                           \* [rd_version server]  Config.copy(): Config(self.version, ...)
    c2: ver[Obj(self)] := cv;                                        \* [wr_version new]     Config.__init__
    c3: ver[Obj(self)] := "1";                                       \* [wr_version new]     config.version = 1.0
        ref := Obj(self);
    n1: if (req[self].notif /\ pool) { pq := pq \cup {self}; goto done }     \* [enqueue]  notification pool
        else { execs[self] := execs[self] + 1;                                      \* [exec]     the method runs
               if (req[self].notif) { goto done } };                                \*            inline notification: never answered
    f1: reply[self] := ver[ref];                                     \* [rd_version ref]  dump(..., config=config): the reply's form
    done: skip;                                                      \* [ret]
  }

  process (W \in Workers) {
    w1: while (TRUE) {
          with (t \in pq) { pq := pq \ {t}; execs[t] := execs[t] + 1 }               \* [exec]  a pool worker runs an accepted task
        }
  }
} *)
\* BEGIN TRANSLATION (chksum(pcal) = "7c28162a" /\ chksum(tla) = "476791e3")
VARIABLES pc, sv, ver, req, pool, pq, execs, reply, v, cv, ref

vars == << pc, sv, ver, req, pool, pq, execs, reply, v, cv, ref >>

ProcSet == (Handlers) \cup (Workers)

Init == (* Global variables *)
        /\ sv \in {"1", "2"}
        /\ ver = [o \in {Server, Default} \cup {Obj(h) : h \in Handlers} |->
                    IF o = Server THEN sv ELSE IF o = Default THEN "2" ELSE "none"]
        /\ req \in [Handlers -> ReqKinds]
        /\ pool \in (IF Workers = {} THEN {FALSE} ELSE BOOLEAN)
        /\ pq = {}
        /\ execs = [h \in Handlers |-> 0]
        /\ reply = [h \in Handlers |-> "none"]
        (* Process H *)
        /\ v = [self \in Handlers |-> ""]
        /\ cv = [self \in Handlers |-> ""]
        /\ ref = [self \in Handlers |-> Server]
        /\ pc = [self \in ProcSet |-> CASE self \in Handlers -> "h0"
                                        [] self \in Workers -> "w1"]

h0(self) == /\ pc[self] = "h0"
            /\ IF ~req[self].valid
                  THEN /\ pc' = [pc EXCEPT ![self] = "f1"]
                  ELSE /\ IF req[self].jr
                             THEN /\ pc' = [pc EXCEPT ![self] = "n1"]
                             ELSE /\ pc' = [pc EXCEPT ![self] = "t1"]
            /\ UNCHANGED << sv, ver, req, pool, pq, execs, reply, v, cv, ref >>

t1(self) == /\ pc[self] = "t1"
            /\ v' = [v EXCEPT ![self] = ver[Server]]
            /\ IF v'[self] # "2"
                  THEN /\ pc' = [pc EXCEPT ![self] = "n1"]
                  ELSE /\ pc' = [pc EXCEPT ![self] = "c1"]
            /\ UNCHANGED << sv, ver, req, pool, pq, execs, reply, cv, ref >>

c1(self) == /\ pc[self] = "c1"
            /\ cv' = [cv EXCEPT ![self] = ver[Server]]
            /\ pc' = [pc EXCEPT ![self] = "c2"]
            /\ UNCHANGED << sv, ver, req, pool, pq, execs, reply, v, ref >>

c2(self) == /\ pc[self] = "c2"
            /\ ver' = [ver EXCEPT ![Obj(self)] = cv[self]]
            /\ pc' = [pc EXCEPT ![self] = "c3"]
            /\ UNCHANGED << sv, req, pool, pq, execs, reply, v, cv, ref >>

c3(self) == /\ pc[self] = "c3"
            /\ ver' = [ver EXCEPT ![Obj(self)] = "1"]
            /\ ref' = [ref EXCEPT ![self] = Obj(self)]
            /\ pc' = [pc EXCEPT ![self] = "n1"]
            /\ UNCHANGED << sv, req, pool, pq, execs, reply, v, cv >>

n1(self) == /\ pc[self] = "n1"
            /\ IF req[self].notif /\ pool
                  THEN /\ pq' = (pq \cup {self})
                       /\ pc' = [pc EXCEPT ![self] = "done"]
                       /\ execs' = execs
                  ELSE /\ execs' = [execs EXCEPT ![self] = execs[self] + 1]
                       /\ IF req[self].notif
                             THEN /\ pc' = [pc EXCEPT ![self] = "done"]
                             ELSE /\ pc' = [pc EXCEPT ![self] = "f1"]
                       /\ pq' = pq
            /\ UNCHANGED << sv, ver, req, pool, reply, v, cv, ref >>

f1(self) == /\ pc[self] = "f1"
            /\ reply' = [reply EXCEPT ![self] = ver[ref[self]]]
            /\ pc' = [pc EXCEPT ![self] = "done"]
            /\ UNCHANGED << sv, ver, req, pool, pq, execs, v, cv, ref >>

done(self) == /\ pc[self] = "done"
              /\ TRUE
              /\ pc' = [pc EXCEPT ![self] = "Done"]
              /\ UNCHANGED << sv, ver, req, pool, pq, execs, reply, v, cv, ref >>

H(self) == h0(self) \/ t1(self) \/ c1(self) \/ c2(self) \/ c3(self)
              \/ n1(self) \/ f1(self) \/ done(self)

w1(self) == /\ pc[self] = "w1"
            /\ \E t \in pq:
                 /\ pq' = pq \ {t}
                 /\ execs' = [execs EXCEPT ![t] = execs[t] + 1]
            /\ pc' = [pc EXCEPT ![self] = "w1"]
            /\ UNCHANGED << sv, ver, req, pool, reply, v, cv, ref >>

W(self) == w1(self)

Next == (\E self \in Handlers: H(self))
           \/ (\E self \in Workers: W(self))

Spec == /\ Init /\ [][Next]_vars
        /\ WF_vars(Next)

\* END TRANSLATION 
=============================================================================
