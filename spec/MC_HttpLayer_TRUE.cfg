SPECIFICATION Spec
CONSTANT GzipFirst = TRUE
INVARIANT TypeOK
INVARIANT MachineIsFunction
INVARIANT JsonOnlyWithConfigType
INVARIANT DispatchGuarded
INVARIANT GzipServed
PROPERTY AlwaysAnswered
