---- MODULE MC_DispatcherConc ----
EXTENDS DispatcherConc
H2 == {1, 2}
H3 == {1, 2, 3}
W0 == {}
W2 == {101, 102}
AllKinds == RequestKinds
\* ---- C13
ServerConfigConstant == [][ver'[Server] = ver[Server] /\ ver'[Default] = ver[Default]]_vars
FormRule == \A h \in Handlers : reply[h] # "none" => reply[h] = (IF req[h].valid /\ ~req[h].jr THEN "1" ELSE sv)
\* ---- C04
NotifNeverAnswered == \A h \in Handlers : (req[h].valid /\ req[h].notif) => reply[h] = "none"
AtMostOnce == \A h \in Handlers : execs[h] <= 1
Quiet == (\A h \in Handlers : pc[h] = "Done") /\ pq = {}
ExactlyOnceWhenDrained == Quiet => \A h \in Handlers : execs[h] = (IF req[h].valid THEN 1 ELSE 0)
EveryoneAnswers == Quiet => \A h \in Handlers : (reply[h] = "none") <=> (req[h].valid /\ req[h].notif)
HandlersTerminate == <>(\A h \in Handlers : pc[h] = "Done")
Drains == <>[](pq = {})
====
