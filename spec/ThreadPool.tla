---------------------------- MODULE ThreadPool ----------------------------
(***************************************************************************)
(* Algorithm-level specification of jsonrpclib.threadpool.ThreadPool.      *)
(*                                                                         *)
(* Written to be bound to the code (DESIGN 3, 4.3): the variables are the   *)
(* implementation's state, there is an explicit pool lock, and every        *)
(* operation whose effect is visible to a thread that does not hold the     *)
(* lock is its own action (queue.put / get / task_done, Event set / clear / *)
(* is_set, Thread.start, lock release).  Plain counters protected by the    *)
(* lock change inside the critical section that ends with the release.      *)
(*                                                                         *)
(* Client threads (Clients) run non-deterministic programs: at every        *)
(* "fetch" a client chooses any operation, so one TLC run quantifies over   *)
(* programs as well as over schedules.  Client 1 is the controlling thread  *)
(* (start / stop / everything); further clients only enqueue and join.      *)
(*                                                                         *)
(* FixJoin / FixGrow / FixStart select the repaired algorithm (TRUE, what    *)
(* /repo contains after the fix: commits) or the original one (FALSE), kept *)
(* so that the model reproduces the defects found on the pinned commit:     *)
(*   ~FixJoin : join() returns True as soon as the queue is empty           *)
(*   ~FixGrow : a worker retires on a stale active count and strands a task *)
(*   ~FixStart: start() increments the pending counter without the lock; a  *)
(*              second client's enqueue() between its read and its write is *)
(*              overwritten, the counter stays too low and a task is        *)
(*              stranded below max_threads (found by TLC -simulate, max 3)  *)
(***************************************************************************)
EXTENDS Naturals, Integers, Sequences, FiniteSets, TLC

CONSTANTS NW,        \* worker ids 1..NW (bound on simultaneously existing threads; ids are re-used)
          NC,        \* number of client threads
          Tasks,     \* set of task ids (positive naturals)
          MaxOps,    \* operation budget per client: function Clients -> Nat
          WithClear, \* is clear() (on a pool in any state) among the operations of the controlling client?
          FixJoin, FixGrow, FixStart

W == 1..NW
Clients == 1..NC
S == 0               \* sentinel item in the queue
None == 0            \* lock free / no task
CId(c) == 100 + c    \* lock-holder id of client c (workers hold the lock under their own id)

VARIABLES maxT, minT, gated, qcap,                            \* configuration (fixed by Init); gated: tasks whose body blocks until released
          stop, q, unfinished, lock, nbT, nbA, nbP, tlist,
          wpc, wtask, wclean, wloc,
          ts, execs, released,
          cpc, cop, cl, nops, phase, obs

cfgV  == <<maxT, minT, gated, qcap>>
poolV == <<stop, q, unfinished, lock, nbT, nbA, nbP, tlist>>
workV == <<wpc, wtask, wclean, wloc>>
taskV == <<ts, execs, released>>
ctlV  == <<cpc, cop, cl, nops, phase, obs>>
vars  == <<cfgV, poolV, workV, taskV, ctlV>>

Cl0 == [n |-> 0, k |-> 0, i |-> 0, w |-> {}, snap |-> {}, sawstop |-> FALSE, r |-> 0]
Obs0 == [joinRet |-> "none", joinSnap |-> {}, clean |-> TRUE]

InitWithCap(mx, mn, g, cap) ==
  /\ maxT = mx /\ minT = mn /\ gated = g /\ qcap = cap       \* qcap: queue_size of the task queue (0 = unbounded)
  /\ stop = TRUE /\ q = <<>> /\ unfinished = 0 /\ lock = None
  /\ nbT = 0 /\ nbA = 0 /\ nbP = 0 /\ tlist = {}
  /\ wpc = [w \in W |-> "unborn"] /\ wtask = [w \in W |-> None] /\ wclean = [w \in W |-> FALSE]
  /\ wloc = [w \in W |-> [q |-> 0, stop |-> FALSE, new |-> 0]]
  /\ ts = [t \in Tasks |-> "new"] /\ execs = [t \in Tasks |-> 0] /\ released = {}
  /\ cpc = [c \in Clients |-> "fetch"] /\ cop = [c \in Clients |-> <<"none">>]
  /\ cl = [c \in Clients |-> Cl0] /\ nops = [c \in Clients |-> 0]
  /\ phase = "stopped"
  /\ obs = [c \in Clients |-> Obs0]

InitWith(mx, mn, g) == InitWithCap(mx, mn, g, 0)
HasRoom == qcap = 0 \/ Len(q) < qcap

--------------------------------------------------------------------------
(* clients *)

Ops(c) == (IF c = 1 THEN {<<"start">>, <<"stop">>} ELSE {})
          \cup (IF WithClear /\ c = 1 THEN {<<"clear">>} ELSE {})
          \cup {<<"join">>, <<"joint">>, <<"joint0">>}          \* join(), join(timeout > 0), join(0)
          \cup {<<"enq", t>> : t \in {t \in Tasks : ts[t] = "new"}}
          \cup {<<"release", t>> : t \in gated}        \* (any client may open a gate; opening it twice is harmless)

Goto(c, pc) == cpc' = [cpc EXCEPT ![c] = pc]
SetCl(c, r) == cl' = [cl EXCEPT ![c] = r]

Fetch(c, op) ==
  /\ cpc[c] = "fetch" /\ nops[c] < MaxOps[c] /\ op \in Ops(c)
  \* a task id is claimed by one client only
  /\ op[1] = "enq" => \A d \in Clients \ {c} : ~(cpc[d] \in {"e1"} /\ cop[d] = op)
  /\ cop' = [cop EXCEPT ![c] = op] /\ nops' = [nops EXCEPT ![c] = @ + 1]
  /\ Goto(c, CASE op[1] = "start" -> "s1" [] op[1] = "stop" -> "p1" [] op[1] = "join" -> "j1"
               [] op[1] \in {"joint", "joint0"} -> "j1" [] op[1] = "enq" -> "e1" [] op[1] = "release" -> "r1" [] op[1] = "clear" -> "p6")
  /\ phase' = IF op[1] = "start" /\ phase = "stopped" THEN "starting" ELSE phase
  /\ SetCl(c, [Cl0 EXCEPT !.snap = {t \in Tasks : ts[t] # "new"}])
  /\ obs' = [obs EXCEPT ![c] = [Obs0 EXCEPT !.clean = (phase = "running")]]
  /\ UNCHANGED <<cfgV, poolV, workV, taskV>>

Ret(c) == Goto(c, "fetch") /\ UNCHANGED <<cop, nops>>

\* release(t): the harness opens the gate of a blocking task
Release(c) == /\ cpc[c] = "r1" /\ released' = released \cup {cop[c][2]} /\ Ret(c)
              /\ UNCHANGED <<cfgV, poolV, workV, ts, execs, cl, phase, obs>>

\* ---- start(): runs without the pool lock
S1(c) == /\ cpc[c] = "s1"                                   \* _done_event.is_set()
         /\ IF ~stop THEN Ret(c) /\ phase' = "running"
                     ELSE Goto(c, "s2") /\ UNCHANGED <<cop, nops, phase>>
         /\ UNCHANGED <<cfgV, poolV, workV, taskV, cl, obs>>
S2(c) == /\ cpc[c] = "s2" /\ stop' = FALSE /\ Goto(c, "s3")   \* _done_event.clear()
         /\ UNCHANGED <<cfgV, q, unfinished, lock, nbT, nbA, nbP, tlist, workV, taskV, cop, cl, nops, phase, obs>>
S3(c) == /\ cpc[c] = "s3"                                   \* qsize() + arithmetic
         /\ LET n == Len(q)
                np == IF n > maxT THEN maxT ELSE n
                nt == IF n > maxT THEN maxT ELSE IF n < minT THEN minT ELSE n
            IN SetCl(c, [cl[c] EXCEPT !.n = np, !.k = nt - np, !.i = 0])
         /\ Goto(c, "s4")
         /\ UNCHANGED <<cfgV, poolV, workV, taskV, cop, nops, phase, obs>>
\* loop 1 head: "self.__nb_pending_task += 1".  Repaired (FixStart): under the pool lock, one step.  Original: WITHOUT
\* the lock - the read and the write of the counter are two steps, another thread's (locked) update may fall between
\* them and is then overwritten
S4(c) == /\ cpc[c] = "s4"
         /\ IF cl[c].i < cl[c].n
            THEN IF FixStart
                 THEN lock = None /\ nbP' = nbP + 1 /\ Goto(c, "s5") /\ UNCHANGED cl
                 ELSE Goto(c, "s4w") /\ SetCl(c, [cl[c] EXCEPT !.r = nbP]) /\ UNCHANGED nbP
            ELSE Goto(c, "s6") /\ SetCl(c, [cl[c] EXCEPT !.i = 0]) /\ UNCHANGED nbP
         /\ UNCHANGED <<cfgV, stop, q, unfinished, lock, nbT, nbA, tlist, workV, taskV, cop, nops, phase, obs>>
S4w(c) == /\ cpc[c] = "s4w" /\ nbP' = cl[c].r + 1 /\ Goto(c, "s5")
          /\ UNCHANGED <<cfgV, stop, q, unfinished, lock, nbT, nbA, tlist, workV, taskV, cop, cl, nops, phase, obs>>

FreeW == {w \in W : wpc[w] \in {"unborn", "dead"}}
NewW == CHOOSE w \in FreeW : \A v \in FreeW : w <= v
\* __start_thread() called without the lock held (from start()).  The stop flag and the queue size are not
\* protected by the pool lock, so reading them inside the critical section is an action of its own.
\* (a) nb_threads >= max: acquire, test, release -- nothing else is read
SpawnMax(c, from, to) ==
  /\ cpc[c] = from /\ lock = None /\ nbT >= maxT
  /\ Goto(c, to) /\ SetCl(c, [cl[c] EXCEPT !.i = @ + 1])
  /\ UNCHANGED <<cfgV, poolV, workV, taskV, cop, nops, phase, obs>>
\* (b) acquire, nb_threads < max, read the stop flag
SpawnRead(c, from, mid) ==
  /\ cpc[c] = from /\ lock = None /\ nbT < maxT
  /\ lock' = CId(c) /\ SetCl(c, [cl[c] EXCEPT !.sawstop = stop]) /\ Goto(c, mid)
  /\ UNCHANGED <<cfgV, stop, q, unfinished, nbT, nbA, nbP, tlist, workV, taskV, cop, nops, phase, obs>>
\* (c) stopped: release ; else nb_threads += 1, Thread.start()   (the lock stays held)
SpawnGo(c, mid, fin, to) ==
  /\ cpc[c] = mid /\ lock = CId(c)
  /\ IF cl[c].sawstop
     THEN /\ lock' = None /\ Goto(c, to) /\ SetCl(c, [cl[c] EXCEPT !.i = @ + 1])
          /\ UNCHANGED <<nbT, wpc>>
     ELSE /\ FreeW # {}
          /\ nbT' = nbT + 1 /\ wpc' = [wpc EXCEPT ![NewW] = "check"]
          /\ SetCl(c, [cl[c] EXCEPT !.w = {NewW}]) /\ Goto(c, fin) /\ UNCHANGED lock
  /\ UNCHANGED <<cfgV, stop, q, unfinished, nbA, nbP, tlist, wtask, wclean, wloc, taskV, cop, nops, phase, obs>>
\* (d) _threads.append(thread) + release
SpawnFinish(c, from, to) ==
  /\ cpc[c] = from /\ lock = CId(c)
  /\ tlist' = tlist \cup cl[c].w /\ lock' = None
  /\ SetCl(c, [cl[c] EXCEPT !.i = @ + 1, !.w = {}])
  /\ Goto(c, to)
  /\ UNCHANGED <<cfgV, stop, q, unfinished, nbT, nbA, nbP, workV, taskV, cop, nops, phase, obs>>

S5(c)  == SpawnMax(c, "s5", "s4") \/ SpawnRead(c, "s5", "s5a")
S5a(c) == SpawnGo(c, "s5a", "s5b", "s4")
S5b(c) == SpawnFinish(c, "s5b", "s4")
S6(c)  == \/ /\ cpc[c] = "s6" /\ cl[c].i >= cl[c].k /\ Ret(c) /\ phase' = "running"
             /\ UNCHANGED <<cfgV, poolV, workV, taskV, cl, obs>>
          \/ /\ cpc[c] = "s6" /\ cl[c].i < cl[c].k
             /\ (SpawnMax(c, "s6", "s6") \/ SpawnRead(c, "s6", "s6a"))
S6a(c) == SpawnGo(c, "s6a", "s6b", "s6")
S6b(c) == SpawnFinish(c, "s6b", "s6")

\* ---- enqueue(t)
\* queue.put(item, True, timeout) is called with the pool lock held: on a full bounded queue the client waits *inside*
\* the critical section until a worker makes room or the time-out raises queue.Full (the task is then not accepted)
E1(c) == /\ cpc[c] = "e1" /\ lock = None                      \* acquire + queue.put
         /\ IF HasRoom
            THEN /\ lock' = CId(c) /\ q' = Append(q, cop[c][2]) /\ unfinished' = unfinished + 1
                 /\ ts' = [ts EXCEPT ![cop[c][2]] = "queued"]
                 /\ Goto(c, "e2")
            ELSE /\ lock' = CId(c) /\ Goto(c, "e1w") /\ UNCHANGED <<q, unfinished, ts>>      \* acquire, then block in put()
         /\ UNCHANGED <<cfgV, stop, nbT, nbA, nbP, tlist, workV, execs, released, cop, cl, nops, phase, obs>>
E1w(c) == /\ cpc[c] = "e1w" /\ lock = CId(c)
          /\ \/ /\ HasRoom                                          \* a worker has dequeued: the put goes through
                /\ q' = Append(q, cop[c][2]) /\ unfinished' = unfinished + 1
                /\ ts' = [ts EXCEPT ![cop[c][2]] = "queued"] /\ Goto(c, "e2")
             \/ /\ ~HasRoom /\ Goto(c, "e1x") /\ UNCHANGED <<q, unfinished, ts>>      \* time-out: queue.Full
          /\ UNCHANGED <<cfgV, stop, lock, nbT, nbA, nbP, tlist, workV, execs, released, cop, cl, nops, phase, obs>>
E1x(c) == /\ cpc[c] = "e1x" /\ lock = CId(c) /\ lock' = None /\ Ret(c)   \* the exception leaves the with block: release
          /\ UNCHANGED <<cfgV, stop, q, unfinished, nbT, nbA, nbP, tlist, workV, taskV, cl, phase, obs>>
E2(c) == /\ cpc[c] = "e2" /\ lock = CId(c)                     \* nb_pending += 1 ; growth rule
         /\ nbP' = nbP + 1
         /\ IF nbP + 1 > nbT /\ nbT < maxT
            THEN /\ SetCl(c, [cl[c] EXCEPT !.sawstop = stop]) /\ Goto(c, "e2a")      \* __start_thread reads the stop flag
                 /\ UNCHANGED <<lock, cop, nops>>
            ELSE /\ lock' = None /\ Ret(c) /\ UNCHANGED cl
         /\ UNCHANGED <<cfgV, stop, q, unfinished, nbT, nbA, tlist, workV, taskV, phase, obs>>
E2a(c) == /\ cpc[c] = "e2a" /\ lock = CId(c)
          /\ IF cl[c].sawstop
             THEN /\ lock' = None /\ Ret(c) /\ UNCHANGED <<nbT, wpc, cl>>
             ELSE /\ FreeW # {}
                  /\ nbT' = nbT + 1 /\ wpc' = [wpc EXCEPT ![NewW] = "check"]
                  /\ SetCl(c, [cl[c] EXCEPT !.w = {NewW}]) /\ Goto(c, "e3")
                  /\ UNCHANGED <<lock, cop, nops>>
          /\ UNCHANGED <<cfgV, stop, q, unfinished, nbA, nbP, tlist, wtask, wclean, wloc, taskV, phase, obs>>
E3(c) == /\ cpc[c] = "e3" /\ lock = CId(c)                     \* _threads.append + release
         /\ tlist' = tlist \cup cl[c].w /\ lock' = None /\ SetCl(c, [cl[c] EXCEPT !.w = {}])
         /\ Ret(c)
         /\ UNCHANGED <<cfgV, stop, q, unfinished, nbT, nbA, nbP, workV, taskV, phase, obs>>

\* ---- join() / join(timeout)
JoinDone(c, r) == obs' = [obs EXCEPT ![c] = [@ EXCEPT !.joinRet = r, !.joinSnap = cl[c].snap]]
J1(c) == /\ cpc[c] = "j1"                                   \* shortcut test
         /\ IF (IF FixJoin THEN unfinished = 0 ELSE q = <<>>)
            THEN JoinDone(c, "true") /\ Ret(c)
            ELSE Goto(c, "j2") /\ UNCHANGED <<cop, nops, obs>>
         /\ UNCHANGED <<cfgV, poolV, workV, taskV, cl, phase>>
\* Queue.join(): returns when unfinished_tasks = 0.  join(timeout): one Condition.wait(timeout), which may
\* end at any moment (notification or time-out); the answer is "unfinished_tasks = 0" at that moment.
J2(c) == /\ cpc[c] = "j2"
         /\ IF cop[c][1] = "join"
            THEN unfinished = 0 /\ JoinDone(c, "true")
            ELSE JoinDone(c, IF unfinished = 0 THEN "true" ELSE "false")
         /\ Ret(c)
         /\ UNCHANGED <<cfgV, poolV, workV, taskV, cl, phase>>

\* ---- stop()
P1(c) == /\ cpc[c] = "p1"                                   \* is_set()
         /\ IF stop THEN Ret(c) ELSE Goto(c, "p2") /\ UNCHANGED <<cop, nops>>
         /\ UNCHANGED <<cfgV, poolV, workV, taskV, cl, phase, obs>>
P2(c) == /\ cpc[c] = "p2" /\ stop' = TRUE /\ Goto(c, "p3") /\ phase' = "stopping"   \* set()
         /\ UNCHANGED <<cfgV, q, unfinished, lock, nbT, nbA, nbP, tlist, workV, taskV, cop, cl, nops, obs>>
P3(c) == /\ cpc[c] = "p3" /\ lock = None                     \* acquire ; n := len(_threads)
         /\ lock' = CId(c) /\ SetCl(c, [cl[c] EXCEPT !.n = Cardinality(tlist), !.i = 0]) /\ Goto(c, "p3b")
         /\ UNCHANGED <<cfgV, stop, q, unfinished, nbT, nbA, nbP, tlist, workV, taskV, cop, nops, phase, obs>>
P3b(c) == /\ cpc[c] = "p3b" /\ lock = CId(c)
          /\ IF cl[c].i < cl[c].n
             THEN IF HasRoom
                  THEN /\ q' = Append(q, S) /\ unfinished' = unfinished + 1       \* put(sentinel)
                       /\ SetCl(c, [cl[c] EXCEPT !.i = @ + 1])
                       /\ UNCHANGED <<lock, cpc>>
                  ELSE /\ SetCl(c, [cl[c] EXCEPT !.i = cl[c].n])                 \* queue.Full (time-out): "pass", no more sentinels
                       /\ UNCHANGED <<q, unfinished, lock, cpc>>
             ELSE /\ SetCl(c, [cl[c] EXCEPT !.w = tlist]) /\ lock' = None    \* copy list ; release
                  /\ Goto(c, "p4") /\ UNCHANGED <<q, unfinished>>
          /\ UNCHANGED <<cfgV, stop, nbT, nbA, nbP, tlist, workV, taskV, cop, nops, phase, obs>>
P4(c) == /\ cpc[c] = "p4" /\ \A w \in cl[c].w : wpc[w] = "dead"  \* join every listed thread
         /\ Goto(c, "p5")
         /\ UNCHANGED <<cfgV, poolV, workV, taskV, cop, cl, nops, phase, obs>>
P5(c) == /\ cpc[c] = "p5" /\ tlist' = {} /\ Goto(c, "p6")         \* del self._threads[:]
         /\ UNCHANGED <<cfgV, stop, q, unfinished, lock, nbT, nbA, nbP, workV, taskV, cop, cl, nops, phase, obs>>
P6(c) == /\ cpc[c] = "p6" /\ lock = None /\ lock' = CId(c) /\ Goto(c, "p6b")   \* clear(): acquire
         /\ UNCHANGED <<cfgV, stop, q, unfinished, nbT, nbA, nbP, tlist, workV, taskV, cop, cl, nops, phase, obs>>
P6b(c) == /\ cpc[c] = "p6b" /\ lock = CId(c)                      \* get_nowait
          /\ IF q # <<>>
             THEN /\ q' = Tail(q) /\ Goto(c, "p6c")
                  /\ ts' = IF Head(q) # S THEN [ts EXCEPT ![Head(q)] = "dropped"] ELSE ts
                  /\ UNCHANGED <<lock, cop, nops, phase>>
             ELSE IF FixJoin
                  THEN \* repaired clear(): release, then wait outside the lock only while running
                       /\ lock' = None /\ Goto(c, "p7") /\ UNCHANGED <<q, ts, cop, nops, phase>>
                  ELSE \* original clear(): join() under the lock; the queue is empty => shortcut => release
                       /\ lock' = None /\ Ret(c) /\ phase' = (IF cop[c][1] = "stop" THEN "stopped" ELSE phase) /\ UNCHANGED <<q, ts>>
          /\ UNCHANGED <<cfgV, stop, unfinished, nbT, nbA, nbP, tlist, workV, execs, released, cl, obs>>
P6c(c) == /\ cpc[c] = "p6c" /\ unfinished' = unfinished - 1 /\ Goto(c, "p6b")   \* task_done
          /\ UNCHANGED <<cfgV, stop, q, lock, nbT, nbA, nbP, tlist, workV, taskV, cop, cl, nops, phase, obs>>
EndPhase(c) == IF cop[c][1] = "stop" THEN "stopped" ELSE phase
P7(c) == /\ cpc[c] = "p7"                                         \* is_set() after the drain
         /\ IF stop THEN Ret(c) /\ phase' = EndPhase(c)
                    ELSE Goto(c, "p8") /\ UNCHANGED <<cop, nops, phase>>
         /\ UNCHANGED <<cfgV, poolV, workV, taskV, cl, obs>>
\* join() at the end of clear(): everything that was queued has been dropped, everything that was running is over
P8(c) == /\ cpc[c] = "p8" /\ unfinished = 0 /\ Ret(c) /\ phase' = EndPhase(c)
         /\ IF cop[c][1] = "clear" THEN JoinDone(c, "true") ELSE UNCHANGED obs
         /\ UNCHANGED <<cfgV, poolV, workV, taskV, cl>>

ClientStep(c) == Release(c) \/ S1(c) \/ S2(c) \/ S3(c) \/ S4(c) \/ S4w(c) \/ S5(c) \/ S5a(c) \/ S5b(c) \/ S6(c) \/ S6a(c) \/ S6b(c)
                 \/ E1(c) \/ E1w(c) \/ E1x(c) \/ E2(c) \/ E2a(c) \/ E3(c) \/ J1(c) \/ J2(c)
                 \/ P1(c) \/ P2(c) \/ P3(c) \/ P3b(c) \/ P4(c) \/ P5(c) \/ P6(c) \/ P6b(c) \/ P6c(c) \/ P7(c) \/ P8(c)
Client(c) == (\E op \in Ops(c) : Fetch(c, op)) \/ ClientStep(c)

--------------------------------------------------------------------------
(* workers: __run *)

WCheck(w) == /\ wpc[w] = "check"                                   \* while not _done_event.is_set()
             /\ wpc' = [wpc EXCEPT ![w] = IF stop THEN "exit" ELSE "get"]
             /\ UNCHANGED <<cfgV, poolV, wtask, wclean, wloc, taskV, ctlV>>
WGet(w) == /\ wpc[w] = "get" /\ q # <<>> /\ q' = Tail(q)               \* queue.get(True, timeout)
           /\ IF Head(q) = S
              THEN wpc' = [wpc EXCEPT ![w] = "sdone"] /\ UNCHANGED wtask
              ELSE wpc' = [wpc EXCEPT ![w] = "active"] /\ wtask' = [wtask EXCEPT ![w] = Head(q)]
           /\ UNCHANGED <<cfgV, stop, unfinished, lock, nbT, nbA, nbP, tlist, wclean, wloc, taskV, ctlV>>
WTimeout(w) == /\ wpc[w] = "get" /\ q = <<>>                          \* queue.Empty after the idle time-out
               /\ wpc' = [wpc EXCEPT ![w] = "cleanup"]
               /\ UNCHANGED <<cfgV, poolV, wtask, wclean, wloc, taskV, ctlV>>
WSDone(w) == /\ wpc[w] = "sdone" /\ unfinished' = unfinished - 1        \* task_done() for the sentinel
             /\ wpc' = [wpc EXCEPT ![w] = "exit"]
             /\ UNCHANGED <<cfgV, stop, q, lock, nbT, nbA, nbP, tlist, wtask, wclean, wloc, taskV, ctlV>>
\* with lock: nb_active += 1.  Repaired code: the growth rule is re-evaluated here (a peer may have retired on
\* a stale active count while this worker held a dequeued task); it reads the queue size, then possibly the
\* stop flag -- neither is protected by the pool lock, so each read is its own action.
WActive(w) == /\ wpc[w] = "active" /\ lock = None /\ nbA' = nbA + 1
              /\ IF FixGrow
                 THEN /\ lock' = w /\ wloc' = [wloc EXCEPT ![w].q = Len(q)]
                      /\ wpc' = [wpc EXCEPT ![w] = "active1"]
                 ELSE /\ wpc' = [wpc EXCEPT ![w] = "begin"] /\ UNCHANGED <<lock, wloc>>
              /\ UNCHANGED <<cfgV, stop, q, unfinished, nbT, nbP, tlist, wtask, wclean, taskV, ctlV>>
WActive1(w) == /\ wpc[w] = "active1" /\ lock = w
               /\ IF wloc[w].q > nbT - nbA /\ nbT < maxT
                  THEN /\ wloc' = [wloc EXCEPT ![w].stop = stop]                      \* __start_thread reads the flag
                       /\ wpc' = [wpc EXCEPT ![w] = "active1b"] /\ UNCHANGED lock
                  ELSE /\ lock' = None /\ wpc' = [wpc EXCEPT ![w] = "begin"] /\ UNCHANGED wloc
               /\ UNCHANGED <<cfgV, stop, q, unfinished, nbT, nbA, nbP, tlist, wtask, wclean, taskV, ctlV>>
WActive1b(w) == /\ wpc[w] = "active1b" /\ lock = w
                /\ IF wloc[w].stop
                   THEN /\ lock' = None /\ wpc' = [wpc EXCEPT ![w] = "begin"] /\ UNCHANGED <<nbT, wloc>>
                   ELSE /\ FreeW # {}
                        /\ nbT' = nbT + 1
                        /\ wpc' = [wpc EXCEPT ![w] = "active2", ![NewW] = "check"]
                        /\ wloc' = [wloc EXCEPT ![w].new = NewW] /\ UNCHANGED lock
                /\ UNCHANGED <<cfgV, stop, q, unfinished, nbA, nbP, tlist, wtask, wclean, taskV, ctlV>>
WActive2(w) == /\ wpc[w] = "active2" /\ lock = w                       \* _threads.append + release
               /\ tlist' = tlist \cup {wloc[w].new} /\ lock' = None
               /\ wpc' = [wpc EXCEPT ![w] = "begin"]
               /\ UNCHANGED <<cfgV, stop, q, unfinished, nbT, nbA, nbP, wtask, wclean, wloc, taskV, ctlV>>
WBegin(w) == /\ wpc[w] = "begin"                                     \* the task body is entered
             /\ ts' = [ts EXCEPT ![wtask[w]] = "running"] /\ execs' = [execs EXCEPT ![wtask[w]] = @ + 1]
             /\ wpc' = [wpc EXCEPT ![w] = "run"]
             /\ UNCHANGED <<cfgV, poolV, wtask, wclean, wloc, released, ctlV>>
WEnd(w) == /\ wpc[w] = "run" /\ (wtask[w] \in gated => wtask[w] \in released)   \* the body returns / raises
           /\ ts' = [ts EXCEPT ![wtask[w]] = "finished"]
           /\ wpc' = [wpc EXCEPT ![w] = "fset"]
           /\ UNCHANGED <<cfgV, poolV, wtask, wclean, wloc, execs, released, ctlV>>
WFutSet(w) == /\ wpc[w] = "fset"                                      \* FutureResult: event set
              /\ ts' = [ts EXCEPT ![wtask[w]] = "done"]
              /\ wpc' = [wpc EXCEPT ![w] = "taskdone"]
              /\ UNCHANGED <<cfgV, poolV, wtask, wclean, wloc, execs, released, ctlV>>
WTaskDone(w) == /\ wpc[w] = "taskdone" /\ unfinished' = unfinished - 1  \* queue.task_done()
                /\ wpc' = [wpc EXCEPT ![w] = "dec"]
                /\ UNCHANGED <<cfgV, stop, q, lock, nbT, nbA, nbP, tlist, wtask, wclean, wloc, taskV, ctlV>>
WDec(w) == /\ wpc[w] = "dec" /\ lock = None                            \* with lock: pending -= 1, active -= 1
           /\ nbP' = nbP - 1 /\ nbA' = nbA - 1
           /\ wpc' = [wpc EXCEPT ![w] = "cleanup"] /\ wtask' = [wtask EXCEPT ![w] = None]
           /\ UNCHANGED <<cfgV, stop, q, unfinished, lock, nbT, tlist, wclean, wloc, taskV, ctlV>>
\* with lock: retirement rule "nb_threads > min and nb_threads - nb_active > qsize()"; the queue size is read
\* (only when the first conjunct holds) while other workers may dequeue without the lock
WCleanup(w) == /\ wpc[w] = "cleanup" /\ lock = None
               /\ IF nbT > minT
                  THEN /\ lock' = w /\ wloc' = [wloc EXCEPT ![w].q = Len(q)]
                       /\ wpc' = [wpc EXCEPT ![w] = "cleanup2"]
                  ELSE /\ wpc' = [wpc EXCEPT ![w] = "check"] /\ UNCHANGED <<lock, wloc>>
               /\ UNCHANGED <<cfgV, stop, q, unfinished, nbT, nbA, nbP, tlist, wtask, wclean, taskV, ctlV>>
WCleanup2(w) == /\ wpc[w] = "cleanup2" /\ lock = w /\ lock' = None
                /\ IF (nbT - nbA) > wloc[w].q
                   THEN nbT' = nbT - 1 /\ wclean' = [wclean EXCEPT ![w] = TRUE] /\ wpc' = [wpc EXCEPT ![w] = "exit"]
                   ELSE wpc' = [wpc EXCEPT ![w] = "check"] /\ UNCHANGED <<nbT, wclean>>
                /\ UNCHANGED <<cfgV, stop, q, unfinished, nbA, nbP, tlist, wtask, wloc, taskV, ctlV>>
WExit(w) == /\ wpc[w] = "exit" /\ lock = None                          \* finally: with lock: remove, nb_threads
            /\ tlist' = tlist \ {w}
            /\ nbT' = IF wclean[w] THEN nbT ELSE nbT - 1
            /\ wpc' = [wpc EXCEPT ![w] = "exiting"] /\ wclean' = [wclean EXCEPT ![w] = FALSE]
            /\ UNCHANGED <<cfgV, stop, q, unfinished, lock, nbA, nbP, wtask, wloc, taskV, ctlV>>
WDead(w) == /\ wpc[w] = "exiting" /\ wpc' = [wpc EXCEPT ![w] = "dead"]    \* the thread function has returned
            /\ UNCHANGED <<cfgV, poolV, wtask, wclean, wloc, taskV, ctlV>>

Worker(w) == WDead(w) \/ WCheck(w) \/ WGet(w) \/ WTimeout(w) \/ WSDone(w) \/ WActive(w) \/ WActive1(w) \/ WActive1b(w) \/ WActive2(w) \/ WCleanup2(w)
             \/ WBegin(w) \/ WEnd(w) \/ WFutSet(w) \/ WTaskDone(w) \/ WDec(w) \/ WCleanup(w) \/ WExit(w)

Next == (\E c \in Clients : Client(c)) \/ (\E w \in W : Worker(w))

--------------------------------------------------------------------------
(* properties *)

\* workers that may still attempt a queue read (a retiring worker does not count)
Serving == {w \in W : wpc[w] \notin {"unborn", "exit", "exiting", "dead", "sdone"}}
Running == {t \in Tasks : ts[t] = "running"}

(* C09 *)
ExactlyOnce == \A t \in Tasks : execs[t] <= 1
NoRunWhileStopped ==
  [][phase = "stopped" /\ phase' = "stopped" => \A t \in Tasks : ts'[t] = "running" => ts[t] = "running"]_vars
\* with one worker, tasks start in submission order: a running/finished task never has an older queued one
QueuedBefore(a, b) == \E i, j \in 1..Len(q) : i < j /\ q[i] = a /\ q[j] = b
(* C10 *)
MaxRunning == Cardinality(Running) <= maxT
MaxServing == Cardinality(Serving) <= maxT
MinServing == phase = "running" => Cardinality(Serving) >= minT
\* stable stranding: a real task is queued, nobody can take it, and the pool is below its maximum
CanTake == {w \in W : wpc[w] \in {"check", "get", "cleanup", "dec", "taskdone", "fset"}}
Stranded == /\ phase = "running" /\ \A c \in Clients : cpc[c] \in {"fetch", "j2"}
            /\ \E i \in 1..Len(q) : q[i] # S
            /\ CanTake = {}
            /\ \A w \in W : wpc[w] \notin {"active", "active1", "active1b", "active2", "begin", "cleanup2"}
            /\ Cardinality(Serving) < maxT
NotStranded == ~Stranded
(* C11 *)
\* join answered True on a pool that was running from call to return => everything enqueued before is over
JoinSound == \A c \in Clients :
               (obs[c].joinRet = "true" /\ obs[c].clean /\ phase = "running")
                  => \A t \in obs[c].joinSnap : ts[t] \in {"done", "dropped"}
\* when stop() has returned every worker is dead or past its last bookkeeping step (it terminates on its own)
WorkersDieAfterStop == phase = "stopped" => \A w \in W : wpc[w] \in {"unborn", "dead", "exiting"}
CountersSane == nbT >= 0 /\ nbA >= 0 /\ nbA <= nbT + 1 /\ unfinished >= 0

=============================================================================
