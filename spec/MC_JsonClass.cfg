SPECIFICATION Spec
INVARIANT OnlyJsonShapes
INVARIANT RoundTrips
INVARIANT IgnoredAbsent
INVARIANT HandlerVerbatimEverywhere
CHECK_DEADLOCK FALSE
