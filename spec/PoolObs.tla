------------------------------ MODULE PoolObs ------------------------------
(* Stage B (property acceptance): the C09 / C10 / C11 formulas evaluated by TLC on what a user of the    *)
(* pool can observe in a recorded execution of the real code: client calls and returns, task bodies       *)
(* entered / left, futures, thread liveness.  Every well-formed event is accepted and the state is        *)
(* *assigned* from the log, so this stage is insensitive to refactorings of the pool; it is the only      *)
(* stage that can produce a VIOLATION (DESIGN 1, 4.4).                                                     *)
EXTENDS Naturals, Integers, Sequences, FiniteSets, TLC, Json, IOUtils

Traces == JsonDeserialize(IOEnv.TRACE_FILE)
VARIABLES tid, l
T == Traces[tid]
N == Len(T.ev)
E == T.ev[l]                      \* the event just consumed is T.ev[l] (l = 0: nothing consumed yet)
ToSet(s) == {s[i] : i \in 1..Len(s)}
Pos(s, x) == CHOOSE i \in 1..Len(s) : s[i] = x
In(s, x) == \E i \in 1..Len(s) : s[i] = x

Init == tid \in 1..Len(Traces) /\ l = 0
Next == l < N /\ l' = l + 1 /\ tid' = tid
Spec == Init /\ [][Next]_<<tid, l>>

NT == T.cfg.nt
TaskIds == 1..NT
St == E.st
Over(s) == s \in {"finished", "done", "dropped"}

(* ---------------- C09 *)
ExactlyOnce == \A t \in TaskIds : St.execs[t] <= 1
\* no task body is entered between the return of stop() and the next start()
NoRunWhileStopped == E.k = "task_begin" => St.phase # "stopped"
\* one worker: a task starts only when no earlier-submitted task is still waiting
Fifo1 == (T.cfg.maxT = 1 /\ E.k = "task_begin" /\ In(T.enq, E.t))
            => \A i \in 1..Len(T.enq) : i < Pos(T.enq, E.t) => St.ts[T.enq[i]] # "queued"
\* future observations: done() only after the body is over; result(0) is the task's own outcome or a time-out
FutureFaithful ==
  /\ (E.k = "obs_done" /\ E.res = "true") => St.ts[E.t] \in {"finished", "done"}
  /\ (E.k = "obs_done" /\ E.res = "false") => St.ts[E.t] # "done"
  /\ E.k = "obs_result" =>
       LET want == IF In(T.cfg.raising, E.t) THEN "exc" ELSE "val" IN
       CASE St.ts[E.t] = "done"     -> E.res = want
         [] St.ts[E.t] = "finished" -> E.res \in {want, "timeout"}
         [] OTHER                   -> E.res = "timeout"

(* ---------------- C10 *)
MaxRunning == Len(St.running) <= T.cfg.maxT
\* srv: alive workers that attempt a further queue read (a lower bound, exact on complete traces)
MaxServing == Len(St.srv) <= T.cfg.maxT
\* alive: worker threads whose function has not returned (an upper bound of the serving workers)
MinServing == St.phase = "running" => Len(St.alive) >= T.cfg.minT

(* ---------------- C11 *)
\* join()/join(t) answered True on a pool that was running from call to return
JoinSound == (E.k = "ret" /\ E.op[1] \in {"join", "joint", "joint0"} /\ E.res = "true" /\ E.clean)
                => \A i \in 1..Len(E.snap) : Over(St.ts[E.snap[i]])
\* when stop() has returned, no worker will take a task any more: none of them reads the queue again
WorkersDieAfterStop == St.phase = "stopped" => St.srv = <<>>

(* ---------------- end of a complete execution (nothing is enabled any more) *)
AtEnd == l = N /\ T.end \in {"quiescent", "done"} /\ N > 0
Queued == {t \in TaskIds : St.ts[t] = "queued"}
\* C09/C10: a waiting task is started unless max_threads tasks are executing (they are gate-blocked here)
NotStranded == (AtEnd /\ St.phase = "running" /\ Queued # {}) => Len(St.running) >= T.cfg.maxT
\* C11/C10: a client may stay blocked only in join() behind gate-blocked / never-started work, or in stop()
\* behind a gate-blocked task
LegitBlock(i) == LET op == T.blockedop[i] IN
                 \/ op = "join" /\ (St.running # <<>> \/ (St.phase # "running" /\ Queued # {}))      \* (a join with a time-out never stays blocked)
                 \/ op \in {"stop", "clear"} /\ St.running # <<>>
NoDeadlock == AtEnd => \A i \in 1..Len(T.blocked) : LegitBlock(i)
\* C11: after a completed stop every worker thread has terminated
AllDeadAfterStop == (AtEnd /\ St.phase = "stopped") => St.alive = <<>>

Flag(name) == PrintT(<<"PROPFAIL", tid, name, l>>)
Monitor == l = 0 \/
           /\ ExactlyOnce \/ Flag("ExactlyOnce")
           /\ NoRunWhileStopped \/ Flag("NoRunWhileStopped")
           /\ Fifo1 \/ Flag("Fifo1")
           /\ FutureFaithful \/ Flag("FutureFaithful")
           /\ MaxRunning \/ Flag("MaxRunning")
           /\ MaxServing \/ Flag("MaxServing")
           /\ MinServing \/ Flag("MinServing")
           /\ JoinSound \/ Flag("JoinSound")
           /\ WorkersDieAfterStop \/ Flag("WorkersDieAfterStop")
           /\ NotStranded \/ Flag("NotStranded")
           /\ NoDeadlock \/ Flag("NoDeadlock")
           /\ AllDeadAfterStop \/ Flag("AllDeadAfterStop")
=============================================================================
