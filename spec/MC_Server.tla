---- MODULE MC_Server ----
EXTENDS Server
C2 == {11, 12}
W0 == {}
W2 == {101, 102}
\* life-cycle words of the property: stop a serving server, close one that never served, close while serving,
\* restart after a shutdown, redundant calls
LifeWords == {<<"C">>, <<"C", "C">>, <<"S", "R", "D", "C">>, <<"S", "R", "C">>, <<"S", "D", "C", "C">>,
              <<"S", "R", "D", "S", "R", "D", "C">>, <<"S", "D", "S", "R", "C">>, <<"S", "R", "R", "D", "C">>}
\* C12
OwnReply == \A c \in Clients : reply[c] \in {0, c}
ExecAtMostOnce == \A c \in Clients : execs[c] <= 1
AnsweredMeansExecuted == \A c \in Clients : reply[c] # 0 => execs[c] = 1
SocketClosedAfter == closed => ~sockOpen
\* every life-cycle call returns (the controller reaches the end of its word)
CloseTerminates == <>(pc[0] = "Done")
====
