------------------------------- MODULE EndToEnd -------------------------------
(***************************************************************************)
(* C01: a call through ServerProxy is transparent.  The composition         *)
(* Client x lossless ordered channel x Dispatcher is specified by what it   *)
(* must preserve: for every job of an exchange (a single call, or the jobs  *)
(* of a MultiCall batch) the registered callable is invoked exactly once    *)
(* with the job's arguments and the caller gets the callable's return       *)
(* value, both up to JSON normalisation (Eqv of Values.tla); notifications  *)
(* return None; an attached History holds exactly the texts that crossed    *)
(* the channel, in order.  TLC enumerates the configuration domain.         *)
(***************************************************************************)
EXTENDS Values
Styles == {"plain_pos", "plain_kw", "dotted_pos", "dotted_kw", "unicode_pos", "noargs", "notify_pos", "notify_kw",
           "batch1", "batch2", "batch3", "batch_mixed"}
Versions == {"1", "2"}
Legs == {"loopback", "tcp_simple", "tcp_pooled", "unix_simple", "unix_pooled"}
ValueClasses == {"null", "bool", "zero", "int", "bigint", "negfloat", "emptystr", "unicode", "emptylist", "nested", "emptydict", "dictnested"}
\* per job j of an exchange X (recorded): what the callable must have seen and what the caller must get
JobCalledOnce(job, entry) ==
  /\ entry.name = job.name
  /\ IF job.kw THEN entry.args.items = <<>> /\ Eqv(job.kwargs, entry.kwargs)
     ELSE Eqv(job.args, entry.args) /\ entry.kwargs.items = <<>>
OnceWithArgs(X) == /\ Len(X.log) = Len(X.jobs)
                   /\ \A j \in 1..Len(X.jobs) : JobCalledOnce(X.jobs[j], X.log[j])
Answered(X) == SelectSeq(X.jobs, LAMBDA job : ~job.notify)
ReturnsResult(X) == /\ X.outcome.ok
                    /\ Len(X.outcome.results) = Len(Answered(X))
                    /\ \A j \in 1..Len(Answered(X)) : Eqv(Answered(X)[j].ret, X.outcome.results[j])
NotifyReturnsNone(X) == (Len(X.jobs) = 1 /\ X.jobs[1].notify) => (X.outcome.ok /\ X.outcome.single = VNone)
HistoryExact(X) == X.history.requests = X.wire.requests /\ X.history.responses = X.wire.responses
=============================================================================
