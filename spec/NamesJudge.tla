------------------------------ MODULE NamesJudge ------------------------------
(* C08 judge: predicates on recorded decodings / dispatches of descriptor-bearing payloads.                       *)
EXTENDS JsonClassNames, Json, IOUtils
Cases == JsonDeserialize(IOEnv.CASES_FILE)
VARIABLE i
Init == i \in 1..Len(Cases)
Next == UNCHANGED i
Spec == Init /\ [][Next]_i
R == Cases[i]
E == IF R.canary THEN "unconstrained" ELSE Expect(R.w, R.dk)
Quiet(o) == o.imports = 0 /\ o.marks = 0
\* enabled: an invalid name is rejected before anything is imported or constructed
InvalidNameRejectedBeforeImport ==
  /\ E = "translationerror_noimport" => (R.client_on.exc = "TranslationError" /\ Quiet(R.client_on) /\ Quiet(R.server_on))
  /\ E = "reject_noimport" => (R.client_on.exc # "ok" /\ Quiet(R.client_on) /\ Quiet(R.server_on))
\* enabled: whatever the translator rejects is answered -32700 and no registered method runs; the dispatcher never raises
ServerAnswers32700NoCall ==
  /\ R.server_on.exc = "ok"
  /\ R.client_on.exc # "ok" => (R.server_on.code = -32700 /\ R.server_on.calls = 0)
\* disabled: nothing is interpreted, imported or constructed; decoding equals plain JSON decoding; members pass verbatim
InertWhenOff ==
  /\ R.client_off.exc = "ok" /\ R.client_off.plain /\ Quiet(R.client_off)
  /\ R.server_off.exc = "ok" /\ Quiet(R.server_off) /\ R.server_off.calls = 1 /\ R.server_off.verbatim
Flag(name) == PrintT(<<"PROPFAIL", i, name>>)
Monitor == /\ InvalidNameRejectedBeforeImport \/ Flag("InvalidNameRejectedBeforeImport")
           /\ ServerAnswers32700NoCall \/ Flag("ServerAnswers32700NoCall")
           /\ InertWhenOff \/ Flag("InertWhenOff")
=============================================================================
