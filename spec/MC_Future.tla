---- MODULE MC_Future ----
EXTENDS Future
R1 == {1}
R2 == {1, 2}
R3 == {1, 2, 3}
\* ---------------- properties (C16)
Count(r) == Cardinality({i \in 1..Len(calls) : calls[i].cb = r})
Outcome == IF raises THEN "E" ELSE "R"
\* done() is not True, and result(0) times out, until the task has finished
NotDoneBeforeFinish == \A i \in 1..Len(seen) : (seen[i].k = "done" /\ seen[i].v = "true") => seen[i].td
ResultOnlyAfterFinish == \A i \in 1..Len(seen) : (seen[i].k = "result" /\ seen[i].v # "timeout") => seen[i].td
\* result() yields the task's own outcome, and once an observer has seen completion everything later agrees
ResultFaithful == \A i \in 1..Len(seen) : seen[i].k = "result" => seen[i].v \in {"timeout", Outcome}
Positive(o) == (o.k = "done" /\ o.v = "true") \/ (o.k = "result" /\ o.v # "timeout")
ConsistentAfter == \A i, j \in 1..Len(seen) : (i < j /\ Positive(seen[i])) => Positive(seen[j])
\* callbacks
AtMostOncePerRegistration == \A r \in Regs : Count(r) <= 1
ArgsRight == \A i \in 1..Len(calls) :
               /\ calls[i].d = (IF raises THEN "none" ELSE "R")
               /\ calls[i].e = (IF raises THEN "E" ELSE "none")
               /\ calls[i].x = calls[i].cb
AllDone == \A p \in ProcSet : pc[p] = "Done"
ExactlyOnceAtEnd == AllDone => \A r \in Regs : IF r \in sup THEN Count(r) <= 1 ELSE Count(r) = 1
\* nothing is called before the task has finished
NoEarlyCallback == calls # <<>> => eset
\* the stored outcome never changes once published, whatever callbacks do
OutcomeStable == [][eset => (data' = data /\ exc' = exc /\ eset')]_vars
ExecutorCompletes == AllDone => xret = (IF raises THEN "E" ELSE "ok")
====
