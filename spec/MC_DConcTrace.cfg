SPECIFICATION TSpec
CONSTANTS
  Handlers <- TrH
  Workers <- TrW
  ReqKinds <- TrK
  defaultInitValue = 0
POSTCONDITION Verdicts
CHECK_DEADLOCK FALSE
