SPECIFICATION Spec
INVARIANT Req2
INVARIANT Notif2NoId
INVARIANT Req1
INVARIANT Notif1NullId
INVARIANT SuppliedIdVerbatim
INVARIANT OtherwiseFresh
INVARIANT ResponseNeedsId
INVARIANT InvalidRaise
INVARIANT Emit
CHECK_DEADLOCK FALSE
