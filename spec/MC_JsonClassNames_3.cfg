SPECIFICATION Spec
CONSTANT MaxLen = 3
INVARIANT EmptyInvalid
INVARIANT AnyForeignCharInvalid
INVARIANT InvalidNeverImports
INVARIANT Emit
CHECK_DEADLOCK FALSE
