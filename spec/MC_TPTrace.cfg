SPECIFICATION TSpec
CONSTANTS
  NW = 7
  NC = 2
  Tasks <- TrTasks
  MaxOps <- TrOps
  WithClear = TRUE
  FixJoin = TRUE
  FixGrow = TRUE
  FixStart = TRUE
INVARIANT Monitor
POSTCONDITION Verdicts
CHECK_DEADLOCK FALSE
