SPECIFICATION Spec
CONSTANT MaxLen = 2
INVARIANT NoAliasing
INVARIANT Emit
CHECK_DEADLOCK FALSE
