---------------------------- MODULE EndToEndJudge ----------------------------
EXTENDS EndToEnd, Json, IOUtils
Cases == JsonDeserialize(IOEnv.CASES_FILE)
VARIABLE i
Init == i \in 1..Len(Cases)
Next == UNCHANGED i
Spec == Init /\ [][Next]_i
X == Cases[i]
Flag(name) == PrintT(<<"PROPFAIL", i, name>>)
Monitor == /\ OnceWithArgs(X) \/ Flag("OnceWithArgs")
           /\ ReturnsResult(X) \/ Flag("ReturnsResult")
           /\ NotifyReturnsNone(X) \/ Flag("NotifyReturnsNone")
           /\ HistoryExact(X) \/ Flag("HistoryExact")
=============================================================================
