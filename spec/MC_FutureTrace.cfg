SPECIFICATION TSpec
CONSTANTS
  Regs <- TrRegs
  NObs = 1000
  defaultInitValue = 0
POSTCONDITION Verdicts
CHECK_DEADLOCK FALSE
