---- MODULE MC_Dispatcher ----
(* model run: every single entry and every two-entry batch over the abstract domain, both server versions,   *)
(* both dispatch kinds; the clauses of C02-C05 / C13 that can be read off the model are invariants.           *)
EXTENDS Dispatcher, Json
CONSTANT MaxN
VARIABLES bk, e1, e2, n, sv, dk
vars == <<bk, e1, e2, n, sv, dk>>
Entry == [obj : BOOLEAN, jr : BOOLEAN, idc : IdC, mc : MethodC, pc : ParamC]
Norm(e) == IF e.obj THEN e ELSE NonEntry
Init == /\ sv \in ServerVer /\ dk \in DispatchK
        /\ bk \in {"unparseable", "emptytext", "falsy", "scalar", "object", "array"}
        /\ IF bk = "object" THEN n = 1 /\ e1 \in {x \in Entry : x.obj} /\ e2 = NonEntry
           ELSE IF bk = "array" THEN n \in 1..MaxN /\ e1 \in {Norm(x) : x \in Entry} /\ (IF n = 2 THEN e2 \in {Norm(x) : x \in Entry} ELSE e2 = NonEntry)
           ELSE n = 0 /\ e1 = NonEntry /\ e2 = NonEntry
Next == UNCHANGED vars
Spec == Init /\ [][Next]_vars
Es == IF n = 0 THEN <<>> ELSE IF n = 1 THEN <<e1>> ELSE <<e1, e2>>
O == BodyOutcome(bk, Es, sv, dk)
A == Answering(O.per)
\* C03: one response per non-notification entry, in order; C04: a notification never answers
OneToOne == bk \in {"object", "array"} =>
              Len(A) = Cardinality({j \in 1..n : ~(Valid(Es[j]) /\ Notif(Es[j]))})
NotifSilent == \A j \in 1..n : (Valid(Es[j]) /\ Notif(Es[j])) => ~O.per[j].resp
\* C05: rejected requests run nothing
RejectedRunNothing == \A j \in 1..Len(O.per) : (O.per[j].codes \subseteq {-32700, -32600, -32601}) /\ O.per[j].resp /\ dk = "default" => O.per[j].calls = 0
\* C13: valid request without "jsonrpc" -> 1.0 form, with it -> the server's form
FormRule == \A j \in 1..n : (Valid(Es[j]) /\ ~Notif(Es[j])) => O.per[j].form = (IF Es[j].jr THEN sv ELSE "1")
Emit == bk \notin {"object"} \/ PrintT(ToJson([e |-> e1, sv |-> sv, dk |-> dk]))
====
