-------------------------- MODULE NotifyClientJudge --------------------------
EXTENDS Values, Json, IOUtils, Naturals, Sequences
Cases == JsonDeserialize(IOEnv.CASES_FILE)
VARIABLE i
Init == i \in 1..Len(Cases)
Next == UNCHANGED i
Spec == Init /\ [][Next]_i
ClientNotifyReturnsNone == Cases[i].ret = VNone
Monitor == ClientNotifyReturnsNone \/ PrintT(<<"PROPFAIL", i, "ClientNotifyReturnsNone">>)
=============================================================================
