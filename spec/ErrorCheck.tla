------------------------------ MODULE ErrorCheck ------------------------------
(* C06: the client-side classification of a reply (check_for_errors, ServerProxy call, MultiCall result access) *)
(* as a function of the reply's shape.                                                                          *)
EXTENDS Naturals, Integers, Sequences, FiniteSets, TLC

ErrK  == {"absent", "null", "false", "zero", "estr", "elist", "edict",
          "objcode", "obj1", "objmulti", "strcode", "str", "num", "arrcode", "arr", "true"}
CodeK == {"lo_in", "hi_in", "mid_in", "lo_out", "hi_out", "other_int", "float_in", "float_out", "numstr", "nonnum", "null", "bool"}
MsgK  == {"message", "trace", "neither", "both"}
DataK == {"data", "nodata"}
ResK  == {"absent", "null", "false", "zero", "estr", "elist", "edict", "value"}
EnvK  == {"1", "2"}

ErrEmpty(a) == a.errk \in {"absent", "null", "false", "zero", "estr", "elist", "edict"}
InRangeClass(a) == a.codek \in {"lo_in", "hi_in", "mid_in", "float_in"}
\* expected client behaviour
Expect(a) ==
  IF ErrEmpty(a) THEN (IF a.resk # "absent" THEN "return" ELSE "unspecified")
  ELSE IF a.errk = "objcode" THEN (IF InRangeClass(a) THEN "protocol" ELSE "app")
  ELSE "anyprotocol"
\* the numeric meaning of "within [-32700, -32000]" for a code lying between the integers lo and hi
InRange(lo, hi) == lo >= -32700 /\ hi <= -32000
=============================================================================
