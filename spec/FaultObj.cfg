SPECIFICATION Spec
CONSTANT MaxOps = 4
PROPERTY Sticky
PROPERTY OwnIdWhenTruthy
PROPERTY ConfigKept
CHECK_DEADLOCK FALSE
