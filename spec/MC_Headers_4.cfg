SPECIFICATION HSpec
CONSTANTS
  Dicts <- MCDicts
  Low <- MCLow
  MaxEvents = 4
INVARIANT StackMatchesBlocks
INVARIANT SavedIsPrefix
INVARIANT NeverSuperseded
INVARIANT Emit
CHECK_DEADLOCK FALSE
