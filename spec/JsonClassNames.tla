--------------------------- MODULE JsonClassNames ---------------------------
(* C08: class-name validation in jsonclass.load and inertness of the class translation when it is disabled.      *)
(* A class name is abstracted to the sequence of alphabet classes of its characters; the name is valid iff it is   *)
(* non-empty and every character is an ASCII letter, an ASCII digit, "_" or ".".  TLC enumerates every word up to  *)
(* MaxLen over the representative alphabet.                                                                        *)
EXTENDS Naturals, Integers, Sequences, FiniteSets, TLC
Alphabet == {"letter", "digit", "underscore", "dot", "space", "semicolon", "dash", "slash", "newline", "nul",
             "nonascii_letter", "nonascii_digit"}
Allowed == {"letter", "digit", "underscore", "dot"}
ValidName(w) == Len(w) > 0 /\ \A i \in 1..Len(w) : w[i] \in Allowed
\* descriptor shapes
DescK == {"wellformed_list", "wellformed_dict", "len0", "len1", "len3", "nonlist", "nonstring_name", "scalar_args"}
WellFormed(dk) == dk \in {"wellformed_list", "wellformed_dict"}
\* expected behaviour of load() with the translation enabled:
\*   invalid name  -> rejected before any import / construction; TranslationError when the descriptor is well-formed
\*   valid name    -> not constrained here (resolution may succeed or fail)
Expect(w, dk) == IF dk = "nonlist" THEN "unconstrained"                                 \* no descriptor list at all: there is no class name
                 ELSE IF dk \in {"len0", "len1"} THEN "reject_noimport"                \* no name / no args to look at
                 ELSE IF dk = "nonstring_name" THEN "reject_noimport"
                 ELSE IF ~ValidName(w) THEN (IF WellFormed(dk) THEN "translationerror_noimport" ELSE "reject_noimport")
                 ELSE "unconstrained"
=============================================================================
