---- MODULE MC_HistoryTrace ----
EXTENDS HistoryTrace
TItems == {"a", "b", "c", "none-like", ""}
====
