---------------------------- MODULE TransportJudge ----------------------------
(* C19 judge: fault words replayed on a real ServerProxy against the scripted raw-socket peer.  Stage A: the        *)
(* outcome class of every call, the connection state before it and what the peer saw follow Transport.tla.           *)
(* Stage B: the property predicates on observable facts only.                                                        *)
EXTENDS TransportOps, Json, IOUtils
Cases == JsonDeserialize(IOEnv.CASES_FILE)
VARIABLE i
JInit == i \in 1..Len(Cases)
JNext == UNCHANGED i
JSpec == JInit /\ [][JNext]_i
R == Cases[i]
N == Len(R.calls)
C(k) == R.calls[k]
RECURSIVE ConnBefore(_)
ConnBefore(k) == IF k = 1 THEN "none" ELSE Outcome(ConnBefore(k - 1), C(k - 1).item).conn
Class(c) == IF c.kind = "return" THEN (IF c.val = c.token THEN "own" ELSE "foreign")
            ELSE IF c.kind = "TransportError" THEN "te" ELSE "raise"
\* ---- stage A (conformance; reported as DRIFT)
AsModelled == \A k \in 1..N : LET m == Outcome(ConnBefore(k), C(k).item) IN
                /\ Class(C(k)) = m.o
                /\ (m.o = "te" => C(k).errcode = m.status)
                /\ (ConnBefore(k) # "unread" => C(k).own_seen = m.seen)      \* (the unread reply is never awaited: the peer's log entry races)
                /\ C(k).unread_before = (ConnBefore(k) = "unread")
\* ---- stage B
\* each call either returns the result of its own request or raises
OwnOrRaise == \A k \in 1..N : C(k).kind = "return" => C(k).val = C(k).token
\* a non-200 reply to this call's request (read on a connection without a stale unread response) raises TransportError
\* carrying the URL and the status
TransportErrorFields ==
  \A k \in 1..N :
     /\ (C(k).last_token_own /\ ~C(k).unread_before /\ NonOK(C(k).last_item))
           => (C(k).kind = "TransportError" /\ C(k).errcode = Status(C(k).last_item) /\ (R.unix \/ C(k).url = R.url))
     /\ C(k).kind = "TransportError" => (C(k).last_token_own /\ C(k).errcode = Status(C(k).last_item))
\* once the faults stop the proxy recovers by itself: at most one further call fails
TailFails == Cardinality({k \in (Len(R.word) + 1)..N : C(k).kind # "return"})
Recovered == TailFails <= 1 /\ C(N).kind = "return"
Flag(name) == PrintT(<<"PROPFAIL", i, name>>)
Monitor == /\ OwnOrRaise \/ Flag("OwnOrRaise")
           /\ TransportErrorFields \/ Flag("TransportErrorFields")
           /\ Recovered \/ Flag("Recovers")
           /\ AsModelled \/ PrintT(<<"DRIFT", i, "AsModelled">>)
=============================================================================
