---- MODULE MC_Framing ----
EXTENDS Framing, Json
\* print every body of the bound once (initial states), for the concretiser
Emit == ~(pos = 0 /\ state = "reading" /\ raw = <<>> /\ text = <<>>) \/ PrintT(ToJson([ws |-> ws]))
====
