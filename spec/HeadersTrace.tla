----------------------------- MODULE HeadersTrace -----------------------------
(* C18 judge: histories (from MC_Headers) executed on a real ServerProxy against the recording peer are replayed   *)
(* as actions of Headers.tla; after every event the transport's real stack must equal the spec stack, and every    *)
(* request must carry exactly the effective headers.                                                                *)
EXTENDS Headers, Json, IOUtils, TLCExt
Traces == JsonDeserialize(IOEnv.TRACE_FILE)
VARIABLES tid, l
T == Traces[tid]
E == T.ev[l]
TInit == /\ tid \in 1..Len(Traces) /\ l = 1
         /\ stack = <<Traces[tid].init>> /\ saved = <<>> /\ nev = 0 /\ last = <<"init">>
Act == CASE E.k = "enter" -> Enter(E.d)
         [] E.k \in {"exitN", "exitE"} -> Exit(E.k)
         [] E.k = "close" -> Close
         [] OTHER -> Call(E.k)
TNext == l <= Len(T.ev) /\ Act /\ l' = l + 1 /\ tid' = tid
TSpec == TInit /\ [][TNext]_<<vars, tid, l>>
\* predicates on the event just consumed (T.ev[l-1]) against the spec state reached
P == T.ev[l - 1]
\* C18: on leaving a block - normally or through an exception - the headers in force are those in force before
StackAsSpecified == l = 1 \/ P.stack = stack
Sent == P.sent
Carried(ln) == ln \in DOMAIN Sent /\ Sent[ln] # <<>>
SentSet(ln) == {Sent[ln][i] : i \in 1..Len(Sent[ln])}
\* C18: every pushed name is carried with the value of the most recently pushed dictionary defining it
\* (Host: the connection adds a Host field of its own next to a pushed one - of the catalogue's values only the effective one)
CatalogueValues(ln) == UNION {ValuesIn(d, ln) : d \in DictIds}
MostRecentWins == (l > 1 /\ P.k \in {"call", "notify", "batch"}) =>
                     \A ln \in Pushed(stack) \ ReadOnly :
                        /\ Carried(ln)
                        /\ IF ln = "host" THEN /\ (SentSet(ln) \cap CatalogueValues(ln)) \subseteq Effective(stack)[ln]
                                                /\ (SentSet(ln) \cap Effective(stack)[ln]) # {}
                           ELSE SentSet(ln) \subseteq Effective(stack)[ln]
ProtectedUntouched == (l > 1 /\ P.k \in {"call", "notify", "batch"}) =>
                         /\ Carried("content-length") /\ SentSet("content-length") = {P.bodylen}
                         /\ Carried("content-type") /\ SentSet("content-type") = {P.ctype}
UserAgentDefault == (l > 1 /\ P.k \in {"call", "notify", "batch"} /\ "user-agent" \notin Pushed(stack)) =>
                         (Carried("user-agent") /\ SentSet("user-agent") = {P.ua})
\* C18, "restored after a block" as the peer sees it: a name that only dictionaries no longer in force defined is not sent
\* any more (the fields every request has of its own - Host, User-Agent and the protected two - are judged above)
OwnFields == {"host", "user-agent", "content-length", "content-type"}
NothingLeftOver == (l > 1 /\ P.k \in {"call", "notify", "batch"}) =>
                      \A ln \in LowNames \ (OwnFields \cup Pushed(stack)) : ~Carried(ln)
NoFailure == l = 1 \/ P.err = ""
Flag(name) == PrintT(<<"PROPFAIL", tid, name, l - 1>>)
Monitor == /\ StackAsSpecified \/ Flag("RestoredAfterBlock")
           /\ MostRecentWins \/ Flag("MostRecentWins")
           /\ NothingLeftOver \/ Flag("NothingLeftOver")
           /\ ProtectedUntouched \/ Flag("ProtectedUntouched")
           /\ UserAgentDefault \/ Flag("UserAgentDefault")
           /\ NoFailure \/ Flag("NoFailure")
=============================================================================
