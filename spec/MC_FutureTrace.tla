---- MODULE MC_FutureTrace ----
EXTENDS FutureTrace
TrRegs == {1, 2, 3}
====
