SPECIFICATION Spec2
CONSTANTS
  NW = 4
  NC = 1
  Tasks <- T2
  MCGated <- G1
  MaxOps <- Ops1_6
  WithClear = FALSE
  FixJoin = FALSE
  FixGrow = FALSE
INVARIANT ExactlyOnce
INVARIANT MaxRunning
INVARIANT MaxServing
INVARIANT MinServing
INVARIANT WorkersDieAfterStop
INVARIANT CountersSane
INVARIANT JoinSound
INVARIANT NotStranded
PROPERTY NoRunWhileStopped
CHECK_DEADLOCK FALSE

