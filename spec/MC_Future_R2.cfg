SPECIFICATION Spec
CONSTANTS
  Regs <- R2
  NObs = 3
  defaultInitValue = 0
INVARIANT NotDoneBeforeFinish
INVARIANT ResultOnlyAfterFinish
INVARIANT ResultFaithful
INVARIANT ConsistentAfter
INVARIANT AtMostOncePerRegistration
INVARIANT ArgsRight
INVARIANT ExactlyOnceAtEnd
INVARIANT NoEarlyCallback
INVARIANT ExecutorCompletes
PROPERTY OutcomeStable
PROPERTY Termination
