---------------------------- MODULE PoolPairJudge ----------------------------
(* C09 / C10 / C11 for two pools alive in one process.  ThreadPool.tla describes ONE pool; a process with several    *)
(* pools is the conjunction of independent instances of that specification, so every property of one pool holds      *)
(* whatever the other pool does.  A case is a random history of start / enqueue / join / stop over two real pools    *)
(* (harness/poolpair_run.py); each recorded step carries what the caller saw:                                        *)
(*   ret               "returned" | "hung" | "raised:<type>"   the call itself (watchdog)                            *)
(*   serves            "ok" when a task enqueued on this (running) pool right after the step came back with the very *)
(*                     object; "na" when the pool does not run                                                       *)
(*   own_alive_after   after stop(): worker threads of this pool still alive (after a grace period)                  *)
(*   other_serves      the same probe on the other pool when that one runs, other_alive_stopped its live threads     *)
(*                     when it does not run                                                                          *)
EXTENDS Naturals, Sequences, TLC, Json, IOUtils
Cases == JsonDeserialize(IOEnv.CASES_FILE)
VARIABLE i
Init == i \in 1..Len(Cases)
Next == UNCHANGED i
Spec == Init /\ [][Next]_i
R == Cases[i]
Ops == R.ops
\* C11: stop() (and start(), join()) always return, and every worker of the stopped pool terminates
CallsReturnPair == \A k \in 1..Len(Ops) : Ops[k].ret = "returned"
WorkersTerminatePair == \A k \in 1..Len(Ops) : (Ops[k].op = "stop" /\ Ops[k].ret = "returned") => Ops[k].own_alive_after = 0
\* C09 / C10: a task accepted by a running pool is executed and its future yields the very object - on the pool
\* that was operated and on the one that was not touched
OwnServesPair == \A k \in 1..Len(Ops) : Ops[k].serves \in {"ok", "na"}
OtherServesPair == \A k \in 1..Len(Ops) : Ops[k].other_serves \in {"ok", "na"}
\* C11: a stopped pool owns no live thread, whatever the other pool does meanwhile
StoppedStaysStopped == \A k \in 1..Len(Ops) : Ops[k].other_alive_stopped = 0
Monitor == /\ (CallsReturnPair \/ PrintT(<<"PROPFAIL", i, "CallsReturnPair">>))
           /\ (WorkersTerminatePair \/ PrintT(<<"PROPFAIL", i, "WorkersTerminatePair">>))
           /\ (OwnServesPair \/ PrintT(<<"PROPFAIL", i, "OwnServesPair">>))
           /\ (OtherServesPair \/ PrintT(<<"PROPFAIL", i, "OtherServesPair">>))
           /\ (StoppedStaysStopped \/ PrintT(<<"PROPFAIL", i, "StoppedStaysStopped">>))
=============================================================================
