----------------------------- MODULE DConcTrace -----------------------------
(* Stage A for C13 (concurrent) / C04 (pooled): every non-pool event recorded from the real dispatcher is       *)
(* exactly one step of DispatcherConc.tla by the same thread, of the kind its label prescribes, with the same    *)
(* effect on the Config.version cells, the execution counters and the replies.  Events of the pool's own         *)
(* machinery are stuttering steps (the pool is abstract here; C09-C11 bind it).                                  *)
EXTENDS DispatcherConc, Json, IOUtils, TLCExt
Traces == JsonDeserialize(IOEnv.TRACE_FILE)
VARIABLES tid, l
tvars == <<vars, tid, l>>
T == Traces[tid]
E == T.ev[l]
NH == T.cfg.nh
KindOf(p) == LET lb == pc[p] IN
  CASE lb = "h0" -> {"call"} [] lb \in {"t1", "c1", "f1"} -> {"rd_version"} [] lb \in {"c2", "c3"} -> {"wr_version"}
    [] lb = "n1" -> {"enqueue", "exec"} [] lb = "done" -> {"ret"} [] lb = "w1" -> {"exec"} [] OTHER -> {}
KindRec(k) == [jr |-> k.jr, notif |-> k.notif, valid |-> k.valid]
TInit == /\ tid \in 1..Len(Traces) /\ l = 1
         /\ Init
         /\ sv = Traces[tid].cfg.sv
         /\ pool = (Traces[tid].cfg.nworkers > 0)
         /\ \A h \in Handlers : req[h] = IF h <= Len(Traces[tid].cfg.kinds) THEN KindRec(Traces[tid].cfg.kinds[h]) ELSE RK(TRUE, FALSE, FALSE)
         /\ TLCSet(tid, 1)
ReplyOf(h) == IF reply'[h] = "none" THEN "none" ELSE reply'[h]
Post == /\ \A h \in 1..NH : execs'[h] = E.st.execs[h]
        /\ (E.k \in {"rd_version", "wr_version"} /\ E.obj \in DOMAIN ver => ver'[E.obj] = E.val)
        /\ (E.k = "ret" => (IF reply'[E.thr] = "none" THEN "none" ELSE reply'[E.thr]) = E.val)
Step == IF E.thr < 100 THEN E.thr \in Handlers /\ H(E.thr) ELSE E.thr \in Workers /\ W(E.thr)
Consume == /\ l <= Len(T.ev)
           /\ \/ (E.k \in KindOf(E.thr) /\ Step /\ Post)
              \/ (E.k = "pool" /\ UNCHANGED vars)
           /\ l' = l + 1 /\ tid' = tid
           /\ TLCSet(tid, l + 1)
TSpec == TInit /\ [][Consume]_tvars
Verdicts == \A i \in 1..Len(Traces) : PrintT(<<"VERDICT", i, TLCGet(i) - 1, Len(Traces[i].ev)>>)
=============================================================================
