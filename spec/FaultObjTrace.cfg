SPECIFICATION TSpec
CONSTANT MaxOps = 1000
INVARIANT Monitor
CHECK_DEADLOCK FALSE
