---------------------------- MODULE FutureTrace ----------------------------
(* Stage A for C16: every event recorded from the real FutureResult (one per shared-memory / Event / lock   *)
(* operation) must be exactly one step of Future.tla by the same thread, of the kind the label prescribes,   *)
(* and the shared state after the step must equal the logged projection.  No silent steps, no stuttering.    *)
EXTENDS Future, Json, IOUtils, TLCExt
Traces == JsonDeserialize(IOEnv.TRACE_FILE)
VARIABLES tid, l
tvars == <<vars, tid, l>>
T == Traces[tid]
E == T.ev[l]

KindOf(p) == LET lb == pc[p] IN
  CASE lb = "x0" -> {"task_end"} [] lb = "x1" -> {"lock"} [] lb = "x2" -> {"wr_data"} [] lb = "x3" -> {"wr_exc"}
    [] lb = "x4" -> {"ev_set"} [] lb = "x5" -> {"rd_cb"} [] lb = "x6" -> {"rd_extra"} [] lb = "x7" -> {"unlock"}
    [] lb = "x8" -> {"rd_data"} [] lb = "x9" -> {"rd_exc"} [] lb = "x10" -> {"cb"} [] lb = "x11" -> {"exec_ret"}
    [] lb = "r1" -> {"lock"} [] lb = "r2" -> {"wr_cb"} [] lb = "r3" -> {"wr_extra"} [] lb = "r4" -> {"is_set"}
    [] lb = "r5" -> {"unlock"} [] lb = "r6" -> {"rd_data"} [] lb = "r7" -> {"rd_exc"} [] lb = "r8" -> {"cb"}
    [] lb = "r9" -> {"reg_ret"}
    [] lb = "o1" -> {"is_set", "ev_wait0"} [] lb = "o2" -> {"rd_exc"} [] lb = "o3" -> {"rd_exc", "rd_data"}
    [] lb = "o4" -> {"obs_end"}
    [] OTHER -> {}

ProcStep(p) == IF p = 100 THEN X ELSE IF p = 200 THEN O ELSE (p \in Regs /\ R(p))

TInit == /\ tid \in 1..Len(Traces) /\ l = 1
         /\ Init /\ raises = Traces[tid].cfg.raises
         /\ TLCSet(tid, 1)

Post == /\ cb' = E.st.cb /\ extra' = E.st.extra /\ eset' = E.st.eset /\ data' = E.st.data /\ exc' = E.st.exc
        /\ lock' = E.st.lock /\ Len(calls') = E.st.ncalls /\ taskdone' = E.st.taskdone
        /\ (E.k = "is_set" /\ E.thr = 200 => kind' = "done")
        /\ (E.k = "ev_wait0" => kind' = "result")
        /\ (E.k = "obs_end" => seen'[Len(seen')].v = E.v)
        /\ (E.k = "cb" => LET c == calls'[Len(calls')] IN c.cb = E.c.cb /\ c.d = E.c.d /\ c.e = E.c.e /\ c.x = E.c.x)
        /\ (E.k = "exec_ret" => xret' = E.v)

Consume == /\ l <= Len(T.ev)
           /\ E.k \in KindOf(E.thr)
           /\ ProcStep(E.thr)
           /\ Post
           /\ l' = l + 1 /\ tid' = tid
           /\ TLCSet(tid, l + 1)
TSpec == TInit /\ [][Consume]_tvars
Verdicts == \A i \in 1..Len(Traces) : PrintT(<<"VERDICT", i, TLCGet(i) - 1, Len(Traces[i].ev)>>)
=============================================================================
