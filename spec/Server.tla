-------------------------------- MODULE Server --------------------------------
(***************************************************************************)
(* C12: life-cycle and request handling of SimpleJSONRPCServer /            *)
(* PooledJSONRPCServer on top of socketserver.  State: the listening        *)
(* socket, the two socketserver flags (shutdown request, "is shut down"     *)
(* event - initially NOT set, as in socketserver.BaseServer), the accept    *)
(* loop, pending connections, the request pool (abstract: PoolContract).    *)
(* The controller runs a life-cycle word over                               *)
(*   S serve_forever in a new thread   D shutdown()   C server_close()       *)
(*   R let the clients send their requests                                    *)
(* FixClose selects the repaired server_close() of PooledJSONRPCServer      *)
(* (shutdown() only when the loop has been started) or the original one,    *)
(* which blocks for ever when the server never served.                       *)
(***************************************************************************)
EXTENDS Naturals, Sequences, FiniteSets, TLC
CONSTANTS Clients,     \* connection ids
          Workers,     \* pool worker ids ({} = plain server: requests handled inline by the loop)
          Words,       \* set of life-cycle words (sequences over {"S","R","D","C"})
          FixClose

(* --fair algorithm Server {
  variables word \in Words,
            sockOpen = TRUE, shutdownReq = FALSE, isShutDown = FALSE, loopStarted = FALSE,
            loopRunning = FALSE,
            sent = {},              \* clients whose request is waiting in the listen queue
            asked = {},             \* clients that have sent their (single) request
            poolq = {}, poolStopped = FALSE,
            execs = [c \in Clients |-> 0], reply = [c \in Clients |-> 0],
            ip = 1, closed = FALSE;

  fair process (Ctl = 0) variables op = ""; {
    c0: while (ip <= Len(word)) {
          op := word[ip];
    c1:   if (op = "S") {
            if (~loopRunning) { loopRunning := TRUE; loopStarted := TRUE; isShutDown := FALSE };   \* serve_forever: __is_shut_down.clear()
          } else if (op = "R") {
            if (sockOpen) {
              with (S \in SUBSET (Clients \ asked)) { sent := sent \cup S; asked := asked \cup S };
            };
          } else if (op = "D") {
            shutdownReq := TRUE;                                   \* shutdown(): request, then wait for the loop
    d1:     await isShutDown;
          } else {                                                 \* server_close()
            if (Workers # {} /\ (~FixClose \/ loopStarted)) {
              shutdownReq := TRUE;
    k1:       await isShutDown;
            };
    k2:     sockOpen := FALSE;
            if (Workers # {}) {
    k3:       await poolq = {} /\ \A w \in Workers : pc[w] = "w0";  \* pool.stop(): queued work is dropped only after running tasks end
              poolStopped := TRUE;
            };
    k4:     closed := TRUE;
          };
    c2:   ip := ip + 1;
        }
  }

  \* the accept loop (serve_forever in its own thread)
  fair process (Loop = 1) variables cur = 0; {
    l0: while (TRUE) {
          await loopRunning;
    l1:   if (shutdownReq) {
            shutdownReq := FALSE; isShutDown := TRUE; loopRunning := FALSE;      \* leave serve_forever
          } else if (sent # {} /\ sockOpen) {
            with (c \in sent) { cur := c; sent := sent \ {c} };                  \* accept
    l2:     if (Workers = {}) { execs[cur] := execs[cur] + 1; reply[cur] := cur } \* handled inline
            else { poolq := poolq \cup {cur} };                                  \* process_request: enqueue
          }
        }
  }

  fair process (W \in Workers) variables t = 0; {
    w0: while (TRUE) {
          await poolq # {} /\ ~poolStopped;
          with (c \in poolq) { t := c; poolq := poolq \ {c} };
    w1:   execs[t] := execs[t] + 1; reply[t] := t;
        }
  }
} *)
\* BEGIN TRANSLATION (chksum(pcal) = "7c28162a" /\ chksum(tla) = "8c6ce28d")
VARIABLES pc, word, sockOpen, shutdownReq, isShutDown, loopStarted, 
          loopRunning, sent, asked, poolq, poolStopped, execs, reply, ip, 
          closed, op, cur, t

vars == << pc, word, sockOpen, shutdownReq, isShutDown, loopStarted, 
           loopRunning, sent, asked, poolq, poolStopped, execs, reply, ip, 
           closed, op, cur, t >>

ProcSet == {0} \cup {1} \cup (Workers)

Init == (* Global variables *)
        /\ word \in Words
        /\ sockOpen = TRUE
        /\ shutdownReq = FALSE
        /\ isShutDown = FALSE
        /\ loopStarted = FALSE
        /\ loopRunning = FALSE
        /\ sent = {}
        /\ asked = {}
        /\ poolq = {}
        /\ poolStopped = FALSE
        /\ execs = [c \in Clients |-> 0]
        /\ reply = [c \in Clients |-> 0]
        /\ ip = 1
        /\ closed = FALSE
        (* Process Ctl *)
        /\ op = ""
        (* Process Loop *)
        /\ cur = 0
        (* Process W *)
        /\ t = [self \in Workers |-> 0]
        /\ pc = [self \in ProcSet |-> CASE self = 0 -> "c0"
                                        [] self = 1 -> "l0"
                                        [] self \in Workers -> "w0"]

c0 == /\ pc[0] = "c0"
      /\ IF ip <= Len(word)
            THEN /\ op' = word[ip]
                 /\ pc' = [pc EXCEPT ![0] = "c1"]
            ELSE /\ pc' = [pc EXCEPT ![0] = "Done"]
                 /\ op' = op
      /\ UNCHANGED << word, sockOpen, shutdownReq, isShutDown, loopStarted, 
                      loopRunning, sent, asked, poolq, poolStopped, execs, 
                      reply, ip, closed, cur, t >>

c1 == /\ pc[0] = "c1"
      /\ IF op = "S"
            THEN /\ IF ~loopRunning
                       THEN /\ loopRunning' = TRUE
                            /\ loopStarted' = TRUE
                            /\ isShutDown' = FALSE
                       ELSE /\ TRUE
                            /\ UNCHANGED << isShutDown, loopStarted, 
                                            loopRunning >>
                 /\ pc' = [pc EXCEPT ![0] = "c2"]
                 /\ UNCHANGED << shutdownReq, sent, asked >>
            ELSE /\ IF op = "R"
                       THEN /\ IF sockOpen
                                  THEN /\ \E S \in SUBSET (Clients \ asked):
                                            /\ sent' = (sent \cup S)
                                            /\ asked' = (asked \cup S)
                                  ELSE /\ TRUE
                                       /\ UNCHANGED << sent, asked >>
                            /\ pc' = [pc EXCEPT ![0] = "c2"]
                            /\ UNCHANGED shutdownReq
                       ELSE /\ IF op = "D"
                                  THEN /\ shutdownReq' = TRUE
                                       /\ pc' = [pc EXCEPT ![0] = "d1"]
                                  ELSE /\ IF Workers # {} /\ (~FixClose \/ loopStarted)
                                             THEN /\ shutdownReq' = TRUE
                                                  /\ pc' = [pc EXCEPT ![0] = "k1"]
                                             ELSE /\ pc' = [pc EXCEPT ![0] = "k2"]
                                                  /\ UNCHANGED shutdownReq
                            /\ UNCHANGED << sent, asked >>
                 /\ UNCHANGED << isShutDown, loopStarted, loopRunning >>
      /\ UNCHANGED << word, sockOpen, poolq, poolStopped, execs, reply, ip, 
                      closed, op, cur, t >>

d1 == /\ pc[0] = "d1"
      /\ isShutDown
      /\ pc' = [pc EXCEPT ![0] = "c2"]
      /\ UNCHANGED << word, sockOpen, shutdownReq, isShutDown, loopStarted, 
                      loopRunning, sent, asked, poolq, poolStopped, execs, 
                      reply, ip, closed, op, cur, t >>

k2 == /\ pc[0] = "k2"
      /\ sockOpen' = FALSE
      /\ IF Workers # {}
            THEN /\ pc' = [pc EXCEPT ![0] = "k3"]
            ELSE /\ pc' = [pc EXCEPT ![0] = "k4"]
      /\ UNCHANGED << word, shutdownReq, isShutDown, loopStarted, loopRunning, 
                      sent, asked, poolq, poolStopped, execs, reply, ip, 
                      closed, op, cur, t >>

k3 == /\ pc[0] = "k3"
      /\ poolq = {} /\ \A w \in Workers : pc[w] = "w0"
      /\ poolStopped' = TRUE
      /\ pc' = [pc EXCEPT ![0] = "k4"]
      /\ UNCHANGED << word, sockOpen, shutdownReq, isShutDown, loopStarted, 
                      loopRunning, sent, asked, poolq, execs, reply, ip, 
                      closed, op, cur, t >>

k4 == /\ pc[0] = "k4"
      /\ closed' = TRUE
      /\ pc' = [pc EXCEPT ![0] = "c2"]
      /\ UNCHANGED << word, sockOpen, shutdownReq, isShutDown, loopStarted, 
                      loopRunning, sent, asked, poolq, poolStopped, execs, 
                      reply, ip, op, cur, t >>

k1 == /\ pc[0] = "k1"
      /\ isShutDown
      /\ pc' = [pc EXCEPT ![0] = "k2"]
      /\ UNCHANGED << word, sockOpen, shutdownReq, isShutDown, loopStarted, 
                      loopRunning, sent, asked, poolq, poolStopped, execs, 
                      reply, ip, closed, op, cur, t >>

c2 == /\ pc[0] = "c2"
      /\ ip' = ip + 1
      /\ pc' = [pc EXCEPT ![0] = "c0"]
      /\ UNCHANGED << word, sockOpen, shutdownReq, isShutDown, loopStarted, 
                      loopRunning, sent, asked, poolq, poolStopped, execs, 
                      reply, closed, op, cur, t >>

Ctl == c0 \/ c1 \/ d1 \/ k2 \/ k3 \/ k4 \/ k1 \/ c2

l0 == /\ pc[1] = "l0"
      /\ loopRunning
      /\ pc' = [pc EXCEPT ![1] = "l1"]
      /\ UNCHANGED << word, sockOpen, shutdownReq, isShutDown, loopStarted, 
                      loopRunning, sent, asked, poolq, poolStopped, execs, 
                      reply, ip, closed, op, cur, t >>

l1 == /\ pc[1] = "l1"
      /\ IF shutdownReq
            THEN /\ shutdownReq' = FALSE
                 /\ isShutDown' = TRUE
                 /\ loopRunning' = FALSE
                 /\ pc' = [pc EXCEPT ![1] = "l0"]
                 /\ UNCHANGED << sent, cur >>
            ELSE /\ IF sent # {} /\ sockOpen
                       THEN /\ \E c \in sent:
                                 /\ cur' = c
                                 /\ sent' = sent \ {c}
                            /\ pc' = [pc EXCEPT ![1] = "l2"]
                       ELSE /\ pc' = [pc EXCEPT ![1] = "l0"]
                            /\ UNCHANGED << sent, cur >>
                 /\ UNCHANGED << shutdownReq, isShutDown, loopRunning >>
      /\ UNCHANGED << word, sockOpen, loopStarted, asked, poolq, poolStopped, 
                      execs, reply, ip, closed, op, t >>

l2 == /\ pc[1] = "l2"
      /\ IF Workers = {}
            THEN /\ execs' = [execs EXCEPT ![cur] = execs[cur] + 1]
                 /\ reply' = [reply EXCEPT ![cur] = cur]
                 /\ poolq' = poolq
            ELSE /\ poolq' = (poolq \cup {cur})
                 /\ UNCHANGED << execs, reply >>
      /\ pc' = [pc EXCEPT ![1] = "l0"]
      /\ UNCHANGED << word, sockOpen, shutdownReq, isShutDown, loopStarted, 
                      loopRunning, sent, asked, poolStopped, ip, closed, op, 
                      cur, t >>

Loop == l0 \/ l1 \/ l2

w0(self) == /\ pc[self] = "w0"
            /\ poolq # {} /\ ~poolStopped
            /\ \E c \in poolq:
                 /\ t' = [t EXCEPT ![self] = c]
                 /\ poolq' = poolq \ {c}
            /\ pc' = [pc EXCEPT ![self] = "w1"]
            /\ UNCHANGED << word, sockOpen, shutdownReq, isShutDown, 
                            loopStarted, loopRunning, sent, asked, poolStopped, 
                            execs, reply, ip, closed, op, cur >>

w1(self) == /\ pc[self] = "w1"
            /\ execs' = [execs EXCEPT ![t[self]] = execs[t[self]] + 1]
            /\ reply' = [reply EXCEPT ![t[self]] = t[self]]
            /\ pc' = [pc EXCEPT ![self] = "w0"]
            /\ UNCHANGED << word, sockOpen, shutdownReq, isShutDown, 
                            loopStarted, loopRunning, sent, asked, poolq, 
                            poolStopped, ip, closed, op, cur, t >>

W(self) == w0(self) \/ w1(self)

Next == Ctl \/ Loop
           \/ (\E self \in Workers: W(self))

Spec == /\ Init /\ [][Next]_vars
        /\ WF_vars(Next)
        /\ WF_vars(Ctl)
        /\ WF_vars(Loop)
        /\ \A self \in Workers : WF_vars(W(self))

\* END TRANSLATION 
=============================================================================
