--------------------------- MODULE ErrorCheckJudge ---------------------------
(* C06 judge: predicates on concrete replies fed to the real check_for_errors / ServerProxy / MultiCall.      *)
EXTENDS ErrorCheck, Values, Json, IOUtils
Cases == JsonDeserialize(IOEnv.CASES_FILE)
VARIABLE i
Init == i \in 1..Len(Cases)
Next == UNCHANGED i
Spec == Init /\ [][Next]_i
R == Cases[i]
Reply == R.reply
Err == Get(Reply, "s:error")
\* the classification is recomputed from the CONCRETE reply (not from the abstract class the harness aimed at)
NonEmpty(v) == ~(v.k = "none" \/ (v.k = "bool" /\ v.a = "false") \/ (v.k \in {"int"} /\ v.a = "0") \/ (v.k = "float" /\ R.errzero)
                 \/ (v.k = "str" /\ v.a = "") \/ (v.k \in {"list", "dict"} /\ v.items = <<>>))
HasErr == Has(Reply, "s:error") /\ NonEmpty(Err)
ObjCode == HasErr /\ Err.k = "dict" /\ Has(Err, "s:code")
Msg == IF Has(Err, "s:message") THEN Get(Err, "s:message")
       ELSE IF Has(Err, "s:trace") THEN Get(Err, "s:trace") ELSE VStr("<no error message>")
Data == IF Has(Err, "s:data") THEN Get(Err, "s:data") ELSE VNone
Want == IF ~HasErr THEN (IF Has(Reply, "s:result") THEN "return" ELSE "unspecified")
        ELSE IF ObjCode THEN (IF R.codenumeric /\ InRange(R.codelo, R.codehi) THEN "protocol" ELSE "app")
        ELSE "anyprotocol"
\* o: outcome of one access path; ret: what a successful access must return on that path
PathOK(o, ret) ==
  CASE Want = "return"      -> o.kind = "return" /\ o.val = ret
    [] Want = "protocol"    -> o.kind = "ProtocolError" /\ o.args = <<Get(Err, "s:code"), Msg>>
    [] Want = "app"         -> o.kind = "AppError" /\ o.args = <<Get(Err, "s:code"), Msg, Data>> /\ o.data = Data
    [] Want = "anyprotocol" -> o.kind \in {"ProtocolError", "AppError", "TransportError"}
    [] OTHER -> TRUE
Result == IF Has(Reply, "s:result") THEN Get(Reply, "s:result") ELSE VNone
Flag(name) == PrintT(<<"PROPFAIL", i, name>>)
Monitor == /\ PathOK(R.cfe, Reply) \/ Flag("check_for_errors:" \o Want)
           /\ PathOK(R.proxy, Result) \/ Flag("ServerProxy:" \o Want)
           /\ PathOK(R.notify, VNone) \/ Flag("ServerProxy-notify:" \o Want)
           /\ PathOK(R.mcindex, Result) \/ Flag("MultiCall[i]:" \o Want)
           /\ PathOK(R.mciter, Result) \/ Flag("MultiCall-iter:" \o Want)
           /\ PathOK(R.mcindex2, Result) \/ Flag("MultiCall[i]-again:" \o Want)
           /\ PathOK(R.mciter2, Result) \/ Flag("MultiCall-iter-again:" \o Want)
           /\ PathOK(R.mcidxiter, Result) \/ Flag("MultiCall[i]-after-iter:" \o Want)
\* conformance of the concretiser with the abstract class it aimed at (DRIFT of the harness, not of the code)
AimOK == Want = R.expect \/ PrintT(<<"DRIFT", i, "concretiser-aim">>)
=============================================================================
