---- MODULE MC_ErrorCheck ----
EXTENDS ErrorCheck, Json
VARIABLES errk, codek, msgk, datak, resk, env
vars == <<errk, codek, msgk, datak, resk, env>>
A == [errk |-> errk, codek |-> codek, msgk |-> msgk, datak |-> datak, resk |-> resk, env |-> env]
Init == /\ errk \in ErrK /\ resk \in ResK /\ env \in EnvK
        /\ IF errk = "objcode" THEN codek \in CodeK /\ msgk \in MsgK /\ datak \in DataK
           ELSE codek = "-" /\ msgk = "-" /\ datak = "-"
Next == UNCHANGED vars
Spec == Init /\ [][Next]_vars
\* clauses of C06 on the model
NeverSwallowed == ~ErrEmpty(A) => Expect(A) \in {"protocol", "app", "anyprotocol"}
FalsyResultsReturned == (ErrEmpty(A) /\ resk # "absent") => Expect(A) = "return"
BoundaryCodes == (errk = "objcode" /\ codek \in {"lo_in", "hi_in"}) => Expect(A) = "protocol"
JustOutside == (errk = "objcode" /\ codek \in {"lo_out", "hi_out"}) => Expect(A) = "app"
Emit == PrintT(ToJson([a |-> A, expect |-> Expect(A)]))
====
