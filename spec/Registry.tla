------------------------------- MODULE Registry -------------------------------
(***************************************************************************)
(* Spec growth (not a listed property): the method registry of              *)
(* SimpleJSONRPCDispatcher as a state machine - register_function (with or  *)
(* without a name, later registrations override), register_instance (one    *)
(* instance, the last one wins; an instance with its own _dispatch takes    *)
(* every name the function table does not know),                            *)
(* register_introspection_functions - and the resolution order of           *)
(* _dispatch: function table, then the instance's _dispatch, then public    *)
(* (dotted) attributes of the instance, else -32601.                        *)
(*                                                                         *)
(* The plain instance of the binding harness has the public methods "a" and *)
(* "c", a private method "_p" and a sub-object "s" with the method "x".     *)
(***************************************************************************)
EXTENDS Naturals, Sequences, FiniteSets, TLC
CONSTANTS MaxOps
Names == {"a", "b", "c", "s.x", "_p", "s._h", "nope"}
RegNames == {"a", "b", "s.x", "_p"}                \* names functions get registered under
Fids == {"F1", "F2"}
Intro == {"system.listMethods", "system.methodHelp", "system.methodSignature"}
InstPublic == {"a", "c"}                            \* list_public_methods(plain instance)
InstResolvable == {"a", "c", "s.x"}                 \* resolve_dotted_attribute(..., allow_dotted_names=True) succeeds
VARIABLES funcs, inst, nops
vars == <<funcs, inst, nops>>
Init == funcs = [n \in {} |-> "F1"] /\ inst = "none" /\ nops = 0
Step == nops < MaxOps /\ nops' = nops + 1
Bind(n, f) == [m \in DOMAIN funcs \cup {n} |-> IF m = n THEN f ELSE funcs[m]]
RegF(n, f) == Step /\ funcs' = Bind(n, f) /\ UNCHANGED inst
RegInst(k) == Step /\ inst' = k /\ UNCHANGED funcs
RegIntro == Step /\ funcs' = [m \in DOMAIN funcs \cup Intro |-> IF m \in Intro THEN m ELSE funcs[m]] /\ UNCHANGED inst
Next == (\E n \in RegNames, f \in Fids : RegF(n, f)) \/ (\E k \in {"plain", "disp"} : RegInst(k)) \/ RegIntro
Spec == Init /\ [][Next]_vars
\* what a request for `name` runs
Resolve(name) == IF name \in DOMAIN funcs THEN funcs[name]
                 ELSE IF inst = "disp" THEN "instdispatch"
                 ELSE IF inst = "plain" /\ name \in InstResolvable THEN "inst:" \o name
                 ELSE "unknown"
ListMethods == DOMAIN funcs \cup (IF inst = "plain" THEN InstPublic ELSE {})
\* ---- properties
\* the function table always wins; private names are reachable only through it
TableFirst == \A n \in DOMAIN funcs : Resolve(n) = funcs[n]
PrivateOnlyByTable == \A n \in {"_p", "s._h"} : (n \notin DOMAIN funcs /\ inst # "disp") => Resolve(n) = "unknown"
\* registrations are never lost (only overridden)
Monotone == [][DOMAIN funcs \subseteq DOMAIN funcs']_vars
ListedAreCallable == \A n \in ListMethods : Resolve(n) # "unknown"
=============================================================================
