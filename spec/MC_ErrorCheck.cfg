SPECIFICATION Spec
INVARIANT NeverSwallowed
INVARIANT FalsyResultsReturned
INVARIANT BoundaryCodes
INVARIANT JustOutside
INVARIANT Emit
CHECK_DEADLOCK FALSE
