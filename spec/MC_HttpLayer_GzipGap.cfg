SPECIFICATION Spec
CONSTANT GzipFirst = FALSE
INVARIANT GzipServed
