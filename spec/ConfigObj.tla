------------------------------ MODULE ConfigObj ------------------------------
(* C13, last clause: Config.copy() yields a configuration whose later modification leaves the original untouched,*)
(* and vice versa.  Objects have identity: a Config is a record of scalar fields plus two containers (classes,    *)
(* serialize_handlers) held by reference; copy() allocates fresh containers with the same content.  TLC explores   *)
(* every word of mutations applied to the original or to the copy.                                                *)
EXTENDS Naturals, Sequences, FiniteSets, TLC
CONSTANTS MaxLen
Scalars == {"version", "content_type", "user_agent", "use_jsonclass", "serialize_method", "ignore_attribute"}
Containers == {"classes", "serialize_handlers"}
Sides == {"orig", "copy"}
\* a mutation: assign a scalar field, add / delete an entry of a container, or rebind a container attribute
Mut == [side : Sides, op : {"set"}, f : Scalars] \cup [side : Sides, op : {"put", "del", "rebind"}, f : Containers]
VARIABLES heap,      \* container id -> set of entries (content)
          cfgs,      \* side -> [scalar fields |-> value tag, containers |-> container id]
          word, nextid, base
vars == <<heap, cfgs, word, nextid, base>>
Cfg0 == [version |-> "v0", content_type |-> "v0", user_agent |-> "v0", use_jsonclass |-> "v0", serialize_method |-> "v0",
         ignore_attribute |-> "v0", classes |-> 1, serialize_handlers |-> 2]
\* Init: the original exists, copy() has just been taken: fresh containers 3 and 4 with equal content
Init == /\ heap = (1 :> {"e0"}) @@ (2 :> {"e0"}) @@ (3 :> {"e0"}) @@ (4 :> {"e0"})
        /\ cfgs = [s \in Sides |-> IF s = "orig" THEN Cfg0 ELSE [Cfg0 EXCEPT !.classes = 3, !.serialize_handlers = 4]]
        /\ word = <<>> /\ nextid = 5
        /\ base = [s \in Sides |-> [f \in Scalars \cup Containers |-> IF f \in Scalars THEN "v0" ELSE {"e0"}]]
Tag(n) == "w" \o ToString(n)
Apply(m) ==
  /\ Len(word) < MaxLen
  /\ word' = Append(word, m)
  /\ CASE m.op = "set" -> /\ cfgs' = [cfgs EXCEPT ![m.side][m.f] = Tag(Len(word) + 1)]
                          /\ UNCHANGED <<heap, nextid>>
       [] m.op = "put" -> /\ heap' = [heap EXCEPT ![cfgs[m.side][m.f]] = @ \cup {Tag(Len(word) + 1)}]
                          /\ UNCHANGED <<cfgs, nextid>>
       [] m.op = "del" -> /\ heap' = [heap EXCEPT ![cfgs[m.side][m.f]] = @ \ {"e0"}]
                          /\ UNCHANGED <<cfgs, nextid>>
       [] m.op = "rebind" -> /\ heap' = heap @@ (nextid :> {Tag(Len(word) + 1)})
                             /\ cfgs' = [cfgs EXCEPT ![m.side][m.f] = nextid]
                             /\ nextid' = nextid + 1
  /\ UNCHANGED base
Next == \E m \in Mut : Apply(m)
Spec == Init /\ [][Next]_vars
\* observable value of a field
View(s, f) == IF f \in Scalars THEN cfgs[s][f] ELSE heap[cfgs[s][f]]
Touched(s) == {word[i].f : i \in {j \in 1..Len(word) : word[j].side = s}}
\* a side's field changes only through mutations applied to that side
NoAliasing == \A s \in Sides : \A f \in Scalars \cup Containers : f \notin Touched(s) => View(s, f) = base[s][f]
=============================================================================
