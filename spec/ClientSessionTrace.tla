-------------------------- MODULE ClientSessionTrace --------------------------
(* operation words executed on a real ServerProxy + History + MultiCall against a raw peer, replayed as actions of *)
(* ClientSession.tla; after every operation the projected real state must equal the spec state.                    *)
EXTENDS ClientSession, Json, IOUtils, TLCExt
Traces == JsonDeserialize(IOEnv.TRACE_FILE)
VARIABLES tid, l
T == Traces[tid]
E == T.ev[l]
TInit == tid \in 1..Len(Traces) /\ l = 1 /\ Init
Act == CASE E.op = "call" -> Call(E.f) [] E.op = "notify" -> Notify(E.f) [] E.op = "add" -> Add(E.k)
         [] E.op = "run" -> Run(E.f) [] OTHER -> Close
TNext == l <= Len(T.ev) /\ Act /\ l' = l + 1 /\ tid' = tid
TSpec == TInit /\ [][TNext]_<<vars, tid, l>>
P == T.ev[l - 1]
\* the recorded wire: a message is [t |-> "single", ks |-> <<k>>] or [t |-> "batch", ks |-> <<k, ...>>]
WireOK == /\ Len(P.wire) = Len(wire)
          /\ \A i \in 1..Len(wire) : /\ P.wire[i].t = wire[i][1]
                                     /\ IF wire[i][1] = "single" THEN P.wire[i].ks = <<wire[i][2]>> ELSE P.wire[i].ks = wire[i][2]
AsSpecified == l = 1 \/ (/\ P.jobs = jobs /\ WireOK /\ P.hreq = hreq /\ P.hresp = hresp /\ P.opened = opened
                         /\ P.last.k = last.k /\ P.last.n = last.n)
Monitor == AsSpecified \/ PrintT(<<"GROWTHFAIL", tid, "ClientSession", l - 1>>)
=============================================================================
