---- MODULE MC_TP ----
EXTENDS ThreadPool
CONSTANT MCGated
\* pool sizes are chosen by Init, so one run covers every (max, min) of the bound
MCInit2 == \E mx \in 1..2 : \E mn \in 0..mx : InitWith(mx, mn, MCGated)
MCInit3 == \E mx \in 1..3 : \E mn \in 0..mx : InitWith(mx, mn, MCGated)
Spec2 == MCInit2 /\ [][Next]_vars
Spec3 == MCInit3 /\ [][Next]_vars
\* bounded task queue: queue_size in 1..2
MCInitCap == \E mx \in 1..2 : \E mn \in 0..mx : \E cap \in 1..2 : InitWithCap(mx, mn, MCGated, cap)
SpecCap == MCInitCap /\ [][Next]_vars
\* a fixed size for targeted searches (max 3, min 0)
SpecLost == InitWith(3, 0, MCGated) /\ [][Next]_vars
T2 == {1, 2}
T3 == {1, 2, 3}
T4 == {1, 2, 3, 4}
G1 == {1}
G2 == {1, 2}
G3 == {1, 2, 3}
Ops1_4 == [c \in {1} |-> 4]
Ops1_5 == [c \in {1} |-> 5]
Ops1_6 == [c \in {1} |-> 6]
Ops1_7 == [c \in {1} |-> 7]
Ops2_52 == [c \in {1, 2} |-> IF c = 1 THEN 5 ELSE 2]
Ops2_42 == [c \in {1, 2} |-> IF c = 1 THEN 4 ELSE 2]
Ops2_32 == [c \in {1, 2} |-> IF c = 1 THEN 3 ELSE 2]
Ops2_31 == [c \in {1, 2} |-> IF c = 1 THEN 3 ELSE 1]
Ops2_22 == [c \in {1, 2} |-> 2]
Ops2_23 == [c \in {1, 2} |-> IF c = 1 THEN 2 ELSE 3]
\* liveness: every thread keeps taking steps, except that a running task need not finish and a client
\* need not issue further operations ("without waiting for any running task to finish")
WorkerNoEnd(w) == WDead(w) \/ WCheck(w) \/ WGet(w) \/ WSDone(w) \/ WActive(w) \/ WActive1(w) \/ WActive1b(w) \/ WActive2(w) \/ WCleanup2(w) \/ WBegin(w)
                  \/ WFutSet(w) \/ WTaskDone(w) \/ WDec(w) \/ WCleanup(w) \/ WExit(w) \/ WTimeout(w)
Fair == /\ \A w \in W : WF_vars(WorkerNoEnd(w))
        /\ \A c \in Clients : WF_vars(ClientStep(c))
LiveSpec2 == MCInit2 /\ [][Next]_vars /\ Fair
Progress == \A t \in Tasks :
   (ts[t] = "queued" /\ phase = "running" /\ Cardinality(Running) < maxT)
      ~> (ts[t] # "queued" \/ phase # "running" \/ Cardinality(Running) >= maxT)
\* stop() always returns when running tasks eventually finish: fairness on task completion and gate release too
FairAll == /\ \A w \in W : WF_vars(Worker(w))
           /\ \A c \in Clients : WF_vars(ClientStep(c))
LiveSpecStop == MCInit2 /\ [][Next]_vars /\ FairAll
StopReturns == \A c \in Clients : (cpc[c] = "p2" /\ (\A t \in gated : t \in released \/ ts[t] \notin {"queued", "running"}))
                 ~> (cpc[c] = "fetch")
====
