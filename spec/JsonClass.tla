------------------------------ MODULE JsonClass ------------------------------
(***************************************************************************)
(* jsonrpclib.jsonclass: dump / load as recursive operators over the value  *)
(* universe of Values.tla, mirroring the order of the code's case analysis. *)
(* Used by C07 (objects survive dump/load), C15 (plain data round-trips,    *)
(* no side effect), C20 (ignore lists, handlers, configured names) and C08  *)
(* (inert when disabled, names validated before importing).                 *)
(*                                                                         *)
(* An object is a value [k |-> "obj", cls |-> class key, keys/items |->     *)
(* its discovered fields]; enum members and Decimals are k = "enum" /       *)
(* "decimal".  The class table CT (a function from class key to a record)   *)
(* is data shared with the harness, which generates the real Python classes *)
(* from the same description:                                               *)
(*   qual   : the name dump() emits (module-qualified, or bare for classes  *)
(*            of the __main__ module, which load() finds in the local table)*)
(*   kind   : "plain" | "ser_list" | "ser_dict" | "enum" | "decimal"        *)
(*   ctor   : for ser_* classes, the field names passed to the constructor  *)
(*   ignore : the object's own ignore list (value of its ignore attribute)  *)
(*   local  : the class is registered in Config.classes                     *)
(***************************************************************************)
EXTENDS Values

SupportedKinds == {"none", "bool", "int", "float", "str", "bytes", "list", "tuple", "set", "frozenset", "dict"}
JC == "s:__jsonclass__"

\* ---- small constructors / map-style access (model-built dicts are not key-sorted: compare with SameJ)
MkDict(ks, vs) == [k |-> "dict", a |-> "", items |-> vs, keys |-> ks, cls |-> ""]
Prefixed(name) == "s:" \o name
HKey(v) == IF v.k \in {"obj", "enum", "decimal"} THEN v.cls ELSE v.k
Handled(v, H) == HKey(v) \in H
HOut(v) == MkDict(<<"s:__handled__">>, <<VStr(HKey(v))>>)            \* what the harness' handlers return
FieldName(key) == key                                                \* keys of objects are "s:<attribute name>"
SeqFilter(s, P(_)) == SelectSeq(s, P)
Idx(s) == 1..Len(s)

RECURSIVE SameJ(_, _)
\* equality of two JSON-shaped values where dicts are maps (key order irrelevant)
SameJ(a, b) ==
  IF a.k # b.k THEN FALSE
  ELSE IF a.k = "dict" THEN /\ KeySet(a) = KeySet(b) /\ Len(a.keys) = Len(b.keys)
                            /\ \A key \in KeySet(a) : SameJ(Get(a, key), Get(b, key))
  ELSE IF a.k \in {"list", "tuple"} THEN Len(a.items) = Len(b.items) /\ \A i \in Idx(a.items) : SameJ(a.items[i], b.items[i])
  ELSE IF a.k \in {"set", "frozenset"} THEN BagEq(a.items, b.items)
  ELSE IF a.k = "obj" THEN /\ a.cls = b.cls /\ KeySet(a) = KeySet(b)
                           /\ \A key \in KeySet(a) : SameJ(Get(a, key), Get(b, key))
  ELSE a.k = b.k /\ a.a = b.a /\ a.cls = b.cls

\* ---------------------------------------------------------------- dump
\* cfg: [H |-> set of handled type keys, ign |-> call-level ignore names (set of "s:..." keys)]
RECURSIVE Dump(_, _, _)
DumpItems(xs, cfg, CT) == [i \in Idx(xs) |-> Dump(xs[i], cfg, CT)]
\* a field is dumped when its name is not ignored and its value is of a supported or handled type
\* (the code additionally drops a field whose *value* equals an ignored name; the harness avoids such values)
Keeps(obj, i, cfg, CT) ==
  LET nm == obj.keys[i]
      ignored == cfg.ign \cup {Prefixed(CT[obj.cls].ignore[j]) : j \in Idx(CT[obj.cls].ignore)}
  IN nm \notin ignored /\ (obj.items[i].k \in SupportedKinds \/ Handled(obj.items[i], cfg.H))
Dump(v, cfg, CT) ==
  IF Handled(v, cfg.H) THEN HOut(v)
  ELSE IF IsPrim(v) \/ v.k = "bytes" THEN v
  ELSE IF IsSeqLike(v) THEN [k |-> "list", a |-> "", items |-> DumpItems(v.items, cfg, CT), keys |-> <<>>, cls |-> IF IsUnordered(v) THEN "bag" ELSE ""]
  ELSE IF v.k = "dict" THEN MkDict(v.keys, DumpItems(v.items, cfg, CT))
  ELSE LET c == CT[v.cls] IN
       IF c.kind \in {"ser_list", "ser_dict"}
       THEN \* [name, params] + attrs, both exactly as returned by the serialisation method (not converted)
            LET isP(i) == \E j \in Idx(c.ctor) : v.keys[i] = Prefixed(c.ctor[j])
                pidx == SelectSeq([i \in Idx(v.keys) |-> i], isP)
                aidx == SelectSeq([i \in Idx(v.keys) |-> i], LAMBDA i : ~isP(i))
                params == IF c.kind = "ser_list"
                          THEN VList([j \in Idx(c.ctor) |-> Get(v, Prefixed(c.ctor[j]))])
                          ELSE MkDict([j \in Idx(c.ctor) |-> Prefixed(c.ctor[j])], [j \in Idx(c.ctor) |-> Get(v, Prefixed(c.ctor[j]))])
            IN MkDict(<<JC>> \o [j \in Idx(aidx) |-> v.keys[aidx[j]]],
                      <<VList(<<VStr(c.qual), params>>)>> \o [j \in Idx(aidx) |-> v.items[aidx[j]]])
       ELSE IF c.kind = "decimal" THEN MkDict(<<JC>>, <<VList(<<VStr(c.qual), VList(<<VStr(v.a)>>)>>)>>)
       ELSE IF c.kind = "enum" THEN MkDict(<<JC>>, <<VList(<<VStr(c.qual), VList(<<c.members[v.a]>>)>>)>>)
       ELSE LET kept == SelectSeq([i \in Idx(v.keys) |-> i], LAMBDA i : Keeps(v, i, cfg, CT))
            IN MkDict(<<JC>> \o [j \in Idx(kept) |-> v.keys[kept[j]]],
                      <<VList(<<VStr(c.qual), VList(<<>>)>>)>> \o [j \in Idx(kept) |-> Dump(v.items[kept[j]], cfg, CT)])

\* ---------------------------------------------------------------- load
IsDescriptor(v) == v.k = "dict" /\ Has(v, JC)
ClassOf(qual, CT) == CHOOSE c \in DOMAIN CT : CT[c].qual = qual
KnownQual(qual, CT) == \E c \in DOMAIN CT : CT[c].qual = qual
RECURSIVE Load(_, _)
LoadItems(xs, CT) == [i \in Idx(xs) |-> Load(xs[i], CT)]
Load(v, CT) ==
  IF IsPrim(v) THEN v
  ELSE IF v.k = "list" THEN [VList(LoadItems(v.items, CT)) EXCEPT !.cls = v.cls]
  ELSE IF ~IsDescriptor(v) THEN MkDict(v.keys, LoadItems(v.items, CT))
  ELSE LET d == Get(v, JC)
           cls == ClassOf(d.items[1].a, CT)
           c == CT[cls]
           rest == SelectSeq([i \in Idx(v.keys) |-> i], LAMBDA i : v.keys[i] # JC)
           params == d.items[2]
       IN IF c.kind = "decimal" THEN [k |-> "decimal", a |-> params.items[1].a, items |-> <<>>, keys |-> <<>>, cls |-> cls]
          ELSE IF c.kind = "enum" THEN [k |-> "enum", a |-> (CHOOSE m \in DOMAIN c.members : c.members[m] = params.items[1]), items |-> <<>>, keys |-> <<>>, cls |-> cls]
          ELSE LET ctorKeys == IF c.kind = "ser_list" THEN [j \in Idx(c.ctor) |-> Prefixed(c.ctor[j])]
                               ELSE IF c.kind = "ser_dict" THEN params.keys ELSE <<>>
                   ctorVals == IF c.kind \in {"ser_list", "ser_dict"} THEN params.items ELSE <<>>
               IN [k |-> "obj", a |-> "", cls |-> cls,
                   keys |-> ctorKeys \o [j \in Idx(rest) |-> v.keys[rest[j]]],
                   items |-> ctorVals \o [j \in Idx(rest) |-> Load(v.items[rest[j]], CT)]]

\* ---------------------------------------------------------------- what "equal up to normalisation" means for objects
RECURSIVE NormV(_, _, _)
\* the value a faithful round trip must produce: tuples / sets become lists, fields of unsupported type and ignored
\* fields are dropped, objects keep their class
NormV(v, cfg, CT) ==
  IF IsPrim(v) \/ v.k \in {"enum", "decimal", "bytes"} THEN v
  ELSE IF IsSeqLike(v) THEN [k |-> "list", a |-> "", items |-> [i \in Idx(v.items) |-> NormV(v.items[i], cfg, CT)], keys |-> <<>>, cls |-> IF IsUnordered(v) THEN "bag" ELSE ""]
  ELSE IF v.k = "dict" THEN MkDict(v.keys, [i \in Idx(v.items) |-> NormV(v.items[i], cfg, CT)])
  ELSE IF CT[v.cls].kind # "plain" THEN v
  ELSE LET kept == SelectSeq([i \in Idx(v.keys) |-> i], LAMBDA i : Keeps(v, i, cfg, CT))
       IN [k |-> "obj", a |-> "", cls |-> v.cls, keys |-> [j \in Idx(kept) |-> v.keys[kept[j]]],
           items |-> [j \in Idx(kept) |-> NormV(v.items[kept[j]], cfg, CT)]]
RECURSIVE SameN(_, _)
\* like SameJ, but a list that stems from a set ("bag") is compared as a bag
SameN(a, b) ==
  IF a.k = "list" /\ b.k = "list" /\ (a.cls = "bag" \/ b.cls = "bag")
  THEN /\ Len(a.items) = Len(b.items)
       /\ \E p \in [Idx(a.items) -> Idx(b.items)] : /\ \A i, j \in Idx(a.items) : i # j => p[i] # p[j]
                                                    /\ \A i \in Idx(a.items) : SameN(a.items[i], b.items[p[i]])
  ELSE IF a.k # b.k THEN FALSE
  ELSE IF a.k \in {"dict", "obj"} THEN /\ a.cls = b.cls /\ KeySet(a) = KeySet(b) /\ Len(a.keys) = Len(b.keys)
                                      /\ \A key \in KeySet(a) : SameN(Get(a, key), Get(b, key))
  ELSE IF a.k = "list" THEN Len(a.items) = Len(b.items) /\ \A i \in Idx(a.items) : SameN(a.items[i], b.items[i])
  ELSE a.a = b.a /\ a.cls = b.cls

\* ---------------------------------------------------------------- properties on a triple (orig, dumped, reloaded)
RECURSIVE HasKeyAnywhere(_, _)
HasKeyAnywhere(v, key) == \/ (v.k \in {"dict", "obj"} /\ Has(v, key))
                          \/ \E i \in Idx(v.items) : HasKeyAnywhere(v.items[i], key)
=============================================================================
