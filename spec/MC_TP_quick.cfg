SPECIFICATION Spec2
CONSTANTS
  NW = 4
  NC = 1
  Tasks <- T3
  MCGated <- G2
  MaxOps <- Ops1_6
  WithClear = FALSE
  FixJoin = FALSE
  FixGrow = FALSE
  FixStart = FALSE
INVARIANT ExactlyOnce
INVARIANT MaxRunning
INVARIANT MaxServing
INVARIANT MinServing
INVARIANT WorkersDieAfterStop
INVARIANT CountersSane
PROPERTY NoRunWhileStopped
CHECK_DEADLOCK FALSE
