#!/bin/bash
# usage: tools_confirm_seed.sh <dir with patch.diff demo.py> ; confirms in a scratch worktree: applies, tests pass, demo fails with / passes without
d="$1"; wt=/tmp/wt/confirm_$$
git -C /repo worktree add -q --detach $wt HEAD || exit 2
cd $wt
/venv/bin/python "$d/demo.py" > /tmp/demo_clean.out 2>&1; rc_clean=$?
if git apply --3way "$d/patch.diff" 2>/dev/null || git apply "$d/patch.diff"; then applied=yes; else applied=no; fi
git reset -q
/venv/bin/python "$d/demo.py" > /tmp/demo_mut.out 2>&1; rc_mut=$?
/venv/bin/python -m pytest -q -p no:cacheprovider tests --deselect tests/test_cgi.py -x > /tmp/tests_mut.out 2>&1; rc_tests=$?
echo "applied=$applied demo_clean_rc=$rc_clean demo_mutant_rc=$rc_mut tests_rc=$rc_tests ($(tail -1 /tmp/tests_mut.out))"
cd /; git -C /repo worktree remove --force $wt
