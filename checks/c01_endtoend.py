"""C01: end-to-end call transparency.  Model: spec/EndToEnd.tla (what the composition client x channel x dispatcher
must preserve, over the configuration domain call style x client version x server version x leg x class translation
x argument class x return class = 69 120 cases enumerated by TLC); binding: every sampled / enumerated case is
concretised and executed through a real ServerProxy over the five legs (loopback -> bare dispatcher, TCP ->
SimpleJSONRPCServer / PooledJSONRPCServer, Unix socket -> both) against recorder callables, with an attached History
and a tap on the server's dispatcher entry point; judge: EndToEndJudge.tla (OnceWithArgs, ReturnsResult,
NotifyReturnsNone, HistoryExact through the value bridge)."""
import json
import os
import random
from concurrent.futures import ThreadPoolExecutor

from harness import common, casejudge
from harness.common import VERIF, PY
from checks.pool import run_parallel, pyenv

RUN = os.path.join(VERIF, "harness", "e2e_run.py")


def run(ctx):
    quick = ctx.tier == "quick"
    ctx.cov["rule"] = ("one case = (call style, client version, server version, leg, class translation on/off, argument class, return "
                       "class) with concrete values drawn from the class; distinct = distinct abstract cases; non-trivial = always (every case "
                       "performs a remote call)")
    ctx.cov["trusted_base"] = ["harness/values.py", "the tap on _marshaled_dispatch (server-side view of the wire)", "socketserver / http.client", "TLC"]
    cases = casejudge.enumerate_cases(ctx, "MC_EndToEnd", "MC_EndToEnd.cfg", workers=8)
    rnd = random.Random(ctx.seed)
    rnd.shuffle(cases)
    if quick:
        # every (style, vc, vs, leg) combination at least once, value classes sampled
        seen, sel = set(), []
        for c in cases:
            k = (c["style"], c["vc"], c["vs"], c["leg"])
            if k not in seen:
                seen.add(k)
                sel.append(c)
        sel += cases[:3000]
        cases = sel
    else:
        ctx.cov["exhaustive"] = True
    nparts = 8 if quick else 16
    cmds, files = [], []
    for j, part in enumerate(common.chunks(cases, (len(cases) + nparts - 1) // nparts)):
        cf, of = ctx.path("e2ec%d.json" % j), ctx.path("e2e%d.json" % j)
        json.dump(part, open(cf, "w"))
        cmds.append(([PY, RUN, "run", cf, of, str(ctx.seed * 32 + j), ctx.dir], pyenv()))
        files.append(of)
    run_parallel(cmds, 3000)
    with ThreadPoolExecutor(max_workers=8) as ex:
        verdicts = list(ex.map(lambda f: casejudge.judge(ctx, "EndToEndJudge", f, "EndToEndJudge.cfg", timeout=3000), files))
    for f, (fails, _) in zip(files, verdicts):
        recs = json.load(open(f))
        for i, r in enumerate(recs, 1):
            ctx.cov["evaluations"] += 1
            a = r["a"]
            ctx._distinct.add(json.dumps(a, sort_keys=True))
            for name in sorted(fails.get(i, ())):
                sig = "%s:%s:v%s->v%s:%s" % (name, a["style"], a["vc"], a["vs"], a["leg"] if name == "HistoryExact" else "any")
                ctx.violation(sig, "%s fails for %s: outcome %s %s, callable invoked %d time(s) for %d job(s)" % (
                    name, json.dumps(a), r["outcome"]["ok"], r["outcome"]["exc"], len(r["log"]), len(r["jobs"])),
                    {"kind": "input", "case": a, "jobs": r["jobs"]})
            if not fails.get(i):
                ctx.cov["traces_validated_against_impl"] += 1
        if recs and len(ctx.cov["samples"]) < 3:
            r = recs[0]
            ctx.sample({"case": r["a"], "request_text": r["history"]["requests"][:1], "response_text": r["history"]["responses"][:1]})
    pooled_schedules(ctx)
    from checks import growth
    growth.safely(ctx, growth.run_history_and_predicates)
    growth.safely(ctx, growth.run_client_session)


def pooled_schedules(ctx):
    """Thread-pooled servers under controlled schedules: the real PooledJSONRPCServer over in-memory connections (the
    harness of C12's schedule tier); for C01 the question is only whether every call is executed once and answered."""
    quick = ctx.tier == "quick"
    cmds, files = [], []
    for j in range(4):
        of = ctx.path("e2esched%d.json" % j)
        cmds.append(([PY, os.path.join(VERIF, "harness", "server_sched.py"), "run", of, str(ctx.seed * 8 + j + 100), "120" if quick else "2500"], pyenv()))
        files.append(of)
    run_parallel(cmds, 2400)
    for f in files:
        fails, _ = casejudge.judge(ctx, "ServerSchedJudge", f, "ServerSchedJudge.cfg")
        recs = json.load(open(f))
        for i, r in enumerate(recs, 1):
            ctx.cov["evaluations"] += 1
            ctx._distinct.add("sched:%d" % r["seed"])
            bad = sorted(set(fails.get(i, ())) & {"OwnReply", "ExecOnce", "EveryRequestAnswered"})
            for name in bad:
                ctx.violation("%s:pooled-schedule" % name, "%s fails on a PooledJSONRPCServer under a controlled schedule (seed %d, pool max %d): %s, end=%s" % (
                    name, r["seed"], r["maxw"], [(q["kind"], q["tokens"], q["want"], q["execs"], q["answered"]) for q in r["reqs"]], r["end"]),
                    {"kind": "schedule", "seed": r["seed"]})
            if not bad:
                ctx.cov["traces_validated_against_impl"] += 1


def replay(ctx, path):
    rp = json.load(open(path))
    cf, of = ctx.path("c.json"), ctx.path("r.json")
    json.dump([rp["case"]] * 8, open(cf, "w"))
    common.run_py(RUN, ["run", cf, of, ctx.seed, ctx.dir])
    fails, _ = casejudge.judge(ctx, "EndToEndJudge", of, "EndToEndJudge.cfg")
    for i, names in fails.items():
        for n in names:
            if rp["sig"].startswith(n + ":"):
                ctx.violation(rp["sig"], "replayed: %s fails" % n, rp)
    ctx.cov["states"] = max(1, ctx.cov.get("judge_states", 1))
    ctx.cov["transitions"] = max(1, ctx.cov["transitions"])
