"""C02, C03, C05 (and the inline part of C04, the sequential part of C13): the server-side dispatcher.
Model: spec/Dispatcher.tla (validate / dispatch / reply as decision functions; every single entry, and in the thorough
tier every two-entry batch, enumerated by TLC with the clauses as invariants); binding: every enumerated entry is
concretised, plus random batches of 1-4 entries, degenerate bodies, truncations / one-character corruptions of valid
bodies, random text and bodies carrying __jsonclass__ descriptors, all pushed through the real
SimpleJSONRPCDispatcher._marshaled_dispatch (default and custom dispatch function, both server versions); judge:
DispatcherJudge.tla recomputes the abstract classes from the concrete entries and evaluates the predicates."""
import json
import os

from harness import common, casejudge
from harness.common import VERIF, PY
from checks.pool import run_parallel, pyenv

RUN = os.path.join(VERIF, "harness", "dispatcher_run.py")
FORMULAS = {
    "C02": {"NeverRaises", "WellFormedOut"},
    "C03": {"IdEcho", "OneToOne", "EmptyNotArray", "ArrayShape"},
    "C04": {"NotifSilent", "NotifOnce"},
    "C05": {"Codes", "RejectedRunNothing", "MessageNames", "ClientCode", "CallsExact"},
    "C13": {"Form", "ConfigUntouched"},
}


def record(ctx, quick):
    """Returns list of record files."""
    cases = casejudge.enumerate_cases(ctx, "MC_Dispatcher", "MC_Dispatcher_1.cfg")
    if not quick:
        ctx.model("MC_Dispatcher", "MC_Dispatcher_2.cfg", workers=16, timeout=1500, heap="8g")
    cmds, files = [], []
    parts = list(common.chunks(cases, (len(cases) + 3) // 4))
    for j, part in enumerate(parts):
        cf, of = ctx.path("dcases%d.json" % j), ctx.path("denum%d.json" % j)
        json.dump(part, open(cf, "w"))
        cmds.append(([PY, RUN, "enum", cf, of, str(ctx.seed * 8 + j), "1" if quick else "6"], pyenv()))
        files.append(of)
    for j in range(4):
        for mode, n in (("batch", 400 if quick else 6000), ("fuzz", 1200 if quick else 20000), ("jc", 200 if quick else 3000),
                        ("hist", 150 if quick else 2500), ("il", 25 if quick else 400)):
            of = ctx.path("d%s%d.json" % (mode, j))
            cmds.append(([PY, RUN, mode, str(n), of, str(ctx.seed * 8 + j)], pyenv()))
            files.append(of)
    run_parallel(cmds, 1500)
    return files


def sig_of(name, r):
    kinds = sorted(set(e["mc"] for e in r["entries"]))
    return "%s:%s:%s:%s" % (name, r["dk"], r["bk"] if r["src"] != "jsonclass" else "jsonclass", "+".join(kinds)[:60])


def judge_files(ctx, files, mine):
    from concurrent.futures import ThreadPoolExecutor
    accepted = 0
    files = [f for f in files if json.load(open(f))]
    with ThreadPoolExecutor(max_workers=6) as ex:
        verdicts = list(ex.map(lambda f: casejudge.judge(ctx, "DispatcherJudge", f, "DispatcherJudge.cfg"), files))
    for f, (fails, _) in zip(files, verdicts):
        recs = json.load(open(f))
        for i, r in enumerate(recs, 1):
            ctx.cov["evaluations"] += 1
            key = "%s|%s|%s|%s" % (r["sv"], r["dk"], r["bk"], "|".join(json.dumps([e["mc"], e["v"]["keys"]]) for e in r["entries"]))
            if r["bk"] in ("object", "array"):
                ctx._distinct.add(key)
            names = set(fails.get(i, ()))
            if r["src"] == "jsonclass" and r["bk"] != "unparseable":
                # descriptor-bearing payloads that load: "never raises / well-formed" is claimed, and the reply's form
                # (it depends on the request's own version member only)
                names &= FORMULAS["C02"] | {"Form", "ConfigUntouched"}
            bad = sorted(names & mine)
            for name in bad:
                ctx.violation(sig_of(name, r), "%s fails for body %s (server %s.0, %s dispatch) -> %s %s" % (
                    name, r["body"][:200], r["sv"], r["dk"], r["out"]["kind"], r["out"]["exc"]),
                    {"kind": "input", "body": r["body"], "sv": r["sv"], "dk": r["dk"], "src": r["src"]})
            if not bad:
                accepted += 1
        if len(ctx.cov["samples"]) < 4:
            ctx.sample({"body": recs[0]["body"][:200], "server": recs[0]["sv"], "dispatch": recs[0]["dk"], "reply_kind": recs[0]["out"]["kind"]})
    return accepted


def run(ctx):
    mine = FORMULAS[ctx.prop]
    ctx.cov["rule"] = ("one case = one request body pushed through the real dispatcher (server version x dispatch kind); distinct = distinct "
                       "(server, dispatch, body kind, per-entry method class and member set); non-trivial = the body is a JSON object or a "
                       "non-empty array")
    ctx.cov["trusted_base"] = ["harness/values.py", "the method-name classification and substring tests in harness/dispatcher_run.py",
                               "json of the standard library", "TLC"]
    ctx.assumptions += ["empty request body: -32600 or -32700 accepted", "a TypeError raised inside a method body: -32602 or -32603 accepted",
                        "C03: ids that are __jsonclass__ descriptors are outside the id domain (they are translated objects)",
                        "numeric literals that overflow to a non-finite float (1e999) are treated like the excluded literals Infinity / NaN"]
    files = record(ctx, ctx.tier == "quick")
    ctx.cov["traces_validated_against_impl"] = judge_files(ctx, files, mine)
    if ctx.prop == "C02":
        # "terminates without raising" under concurrency: requests served by several dispatcher threads under controlled
        # schedules (the recorder of C13 / C04)
        from checks import dconc
        dconc.record_and_judge(ctx, {"NoRaiseConc", "TerminatesConc"})
    if ctx.prop == "C03":
        # the id echo under concurrency: two / three requests served by dispatcher threads under controlled schedules
        # (the recorder of C13 / C04); each reply must carry the id of its own request
        from checks import dconc
        dconc.record_and_judge(ctx, {"OwnId"})
    if ctx.prop == "C05":
        # the client half on histories: a reported code still surfaces after an exchange that went wrong
        from checks import c06_errors
        c06_errors.client_histories(ctx)
    if ctx.prop == "C05":
        # spec growth (not part of the verdict): the method registry as a state machine
        from checks import growth
        growth.safely(ctx, growth.run_registry)


def replay(ctx, path):
    rp = json.load(open(path))
    code = ("import json,random; from harness import dispatcher_run as d; r=d.run_body(%r,%r,%r,random.Random(0),%r,jc=%r); "
            "json.dump([r] if r else [], open(%r,'w'))" % (rp["body"], rp["sv"], rp["dk"], rp["src"],
                                                          ("ok" if rp["src"] == "jsonclass" else None), ctx.path("r.json")))
    import subprocess
    subprocess.check_call([PY, "-c", code], env=dict(os.environ, **pyenv()), cwd=VERIF)
    judge_files(ctx, [ctx.path("r.json")], FORMULAS[ctx.prop])
    ctx.cov["states"] = max(1, ctx.cov.get("judge_states", 1))
    ctx.cov["transitions"] = max(1, ctx.cov["transitions"])
