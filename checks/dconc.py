"""Shared by C13 (concurrent requests) and C04 (pooled notifications): DispatcherConc.tla model runs, systematic
(preemption-bounded) and random schedules of the real dispatcher recorded by harness/dconc_rec.py, judged by
DConcTrace (conformance) and DConcObs (property predicates)."""
import json
import os
import re
from concurrent.futures import ThreadPoolExecutor

from harness import common
from harness.common import MachineryError, VERIF, PY
from checks.pool import run_parallel, pyenv

REC = os.path.join(VERIF, "harness", "dconc_rec.py")


def model_runs(ctx):
    cfgs = ["MC_DispatcherConc_H2W0.cfg", "MC_DispatcherConc_H2W2.cfg"] + ([] if ctx.tier == "quick" else ["MC_DispatcherConc_H3W2.cfg"])
    for c in cfgs:
        r = ctx.model("MC_DispatcherConc", c, workers=8, timeout=1500, extra=["-coverage", "1"])
        zero = set(r.coverage_zero_actions()) - ({"W", "w1"} if "W0" in c else set())
        if zero:
            raise MachineryError("vacuity in %s: %s" % (c, sorted(zero)))


def record_and_judge(ctx, formulas):
    quick = ctx.tier == "quick"
    nparts = 8 if quick else 16
    cmds, files = [], []
    for j in range(nparts):
        of = ctx.path("dconc%d.json" % j)
        cmds.append(([PY, REC, "explore", of, str(ctx.seed * 32 + j), "1" if quick else "2", "60" if quick else "400",
                      ctx.tier, str(j), str(nparts)], pyenv()))
        files.append(of)
    run_parallel(cmds, 2400)

    def a(f):
        return common.tlc("MC_DConcTrace", "MC_DConcTrace.cfg", env={"TRACE_FILE": f}, workers=1, timeout=1500, metadir=f + ".mA")

    def b(f):
        return common.tlc("DConcObs", "DConcObs.cfg", env={"TRACE_FILE": f}, workers=1, timeout=1500, metadir=f + ".mB")
    late = [f + ".late" for f in files if os.path.exists(f + ".late") and json.load(open(f + ".late"))]
    with ThreadPoolExecutor(max_workers=16) as ex:
        ra, rb, rl = list(ex.map(a, files)), list(ex.map(b, files)), list(ex.map(b, late))
    accepted = 0
    conform = {"recorded_traces": 0, "stageA_accepted": 0, "late_start_histories_stageB_only": 0}

    class _NoStageA(object):      # late-start histories have more handlers than MC_DConcTrace instantiates: property monitors only
        errors, finished, out, generated, distinct = [], True, "", 0, 0
    for f, x, y in list(zip(files, ra, rb)) + [(f, _NoStageA, y) for f, y in zip(late, rl)]:
        traces = json.load(open(f))
        if x.errors or not x.finished or y.errors or not y.finished:
            raise MachineryError("trace validation did not complete on %s:\n%s" % (f, "\n".join(x.errors + y.errors) + (x.out + y.out)[-1200:]))
        matched = {int(m.group(1)): (int(m.group(2)), int(m.group(3))) for m in re.finditer(r'<<"VERDICT", (\d+), (\d+), (\d+)>>', x.out)}
        fb = {}
        for m in re.finditer(r'<<"PROPFAIL", (\d+), "(\w+)", (\d+)>>', y.out):
            d = fb.setdefault(int(m.group(1)), {})
            d[m.group(2)] = min(int(m.group(3)), d.get(m.group(2), 10 ** 9))
        ctx.cov["transitions"] += x.generated + y.generated
        ctx.cov["trace_states"] = ctx.cov.get("trace_states", 0) + x.distinct + y.distinct
        for i, tr in enumerate(traces, 1):
            conform["recorded_traces"] += 1
            ctx.cov["evaluations"] += 1
            key = "|".join("%s:%s:%s" % (e["thr"], e["k"], e["obj"]) for e in tr["ev"] if e["k"] != "pool") + json.dumps(tr["cfg"])
            ctx._distinct.add(key)
            okA = x is _NoStageA or matched.get(i, (0, 1))[0] == matched.get(i, (0, 1))[1]
            if x is _NoStageA:
                conform["late_start_histories_stageB_only"] += 1
            elif okA:
                conform["stageA_accepted"] += 1
            else:
                nxt = tr["ev"][matched[i][0]] if matched[i][0] < len(tr["ev"]) else None
                ctx.note_drift("execution is not a behaviour of DispatcherConc.tla: matched %d of %d events, next %s (requests %s, server %s)" % (
                    matched[i][0], matched[i][1], json.dumps({k: nxt[k] for k in ("thr", "k", "obj", "val")}) if nxt else "-",
                    json.dumps(tr["cfg"]["kinds"]), tr["cfg"]["sv"]))
            bad = {n: l for n, l in fb.get(i, {}).items() if n in formulas}
            if okA and not bad:
                accepted += 1
            for name, l in sorted(bad.items()):
                e = tr["ev"][l - 1]
                kinds = tr["cfg"]["kinds"]
                sig = "%s:%s" % (name, "+".join(sorted(("jr" if k["jr"] else "nojr") + ("/notif" if k["notif"] else "") + ("" if k["valid"] else "/invalid") for k in kinds)))
                ctx.violation(sig, "%s is false at event %d (%s by thread %s) of a recorded execution: server %s.0, requests %s, pool workers %d, schedule plan %s" % (
                    name, l, e["k"], e["thr"], tr["cfg"]["sv"], json.dumps(kinds), tr["cfg"]["nworkers"], tr.get("plan")),
                    {"kind": "schedule", "cfg": tr["cfg"], "plan": tr.get("plan"), "formula": name, "at_event": l,
                     "events": ["%s:%s:%s=%s" % (x["thr"], x["k"], x["obj"], x["val"]) for x in tr["ev"][:l + 2] if x["k"] != "pool"]})
            if len(ctx.cov["samples"]) < 3:
                ctx.sample({"cfg": tr["cfg"], "plan": tr.get("plan"), "events": ["%s:%s:%s=%s" % (x["thr"], x["k"], x["obj"], x["val"]) for x in tr["ev"] if x["k"] != "pool"][:40]})
    ctx.cov["traces_validated_against_impl"] += accepted
    ctx.cov.setdefault("conformance", {})["dispatcher_conc"] = conform
