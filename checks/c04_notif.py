"""C04: notifications are executed exactly once and never answered.  (1) inline: Dispatcher.tla / DispatcherJudge
(NotifSilent, NotifOnce over every notification shape, alone and at every batch position, default and custom
dispatch); (2) pooled: DispatcherConc.tla with an abstract pool (TLC exhaustive), the real dispatcher with the real
ThreadPool as notification pool under controlled schedules (DConcTrace / DConcObs); (3) the client side: a
notification call through ServerProxy returns None."""
import json
import os

from harness import common, casejudge
from harness.common import VERIF
from checks import dconc, dispatcher


def client_notify(ctx):
    out = common.run_py(os.path.join(VERIF, "harness", "notify_client.py"), [ctx.path("nc.json"), ctx.seed, 60 if ctx.tier == "quick" else 600])
    recs = json.load(open(ctx.path("nc.json")))
    fails, _ = casejudge.judge(ctx, "NotifyClientJudge", ctx.path("nc.json"), "NotifyClientJudge.cfg")
    for i, r in enumerate(recs, 1):
        ctx.cov["evaluations"] += 1
        ctx._distinct.add("notify:" + r["desc"])
        for name in sorted(fails.get(i, ())):
            ctx.violation("%s:%s" % (name, r["style"]), "%s: %s -> returned %s" % (name, r["desc"], r["ret"]["k"]), {"kind": "input", "case": r})
        if not fails.get(i):
            ctx.cov["traces_validated_against_impl"] += 1


def run(ctx):
    ctx.cov["rule"] = ("cases: request bodies with notifications pushed through the real dispatcher (inline), recorded executions of "
                       "request threads handing notifications to the real ThreadPool under controlled schedules (pooled), client-side "
                       "notification calls; distinct = distinct bodies / event sequences")
    ctx.cov["trusted_base"] = ["harness/detsched.py", "harness/dconc_rec.py", "harness/values.py", "TLC", "pcal"]
    dconc.model_runs(ctx)
    dconc.record_and_judge(ctx, {"NotifNeverAnswered", "AtMostOnce", "ExactlyOnceWhenDrained"})
    files = dispatcher.record(ctx, ctx.tier == "quick")
    ctx.cov["traces_validated_against_impl"] += dispatcher.judge_files(ctx, files, dispatcher.FORMULAS["C04"])
    client_notify(ctx)


def replay(ctx, path):
    raise common.MachineryError("C04 replays are re-derived by running the check itself (deterministic exploration)")
