"""Spec growth beyond the listed properties (DESIGN 3.2 / II.8).  These specifications are model-checked and bound to
the code like the others, but a mismatch is reported as a GROWTH-FINDING line (informational), never as a VIOLATION:
the behaviour is not part of any listed property."""
import json
import os
import re

from harness import common, casejudge
from harness.common import VERIF


def run_history_and_predicates(ctx):
    ctx.model("History", "MC_History.cfg", workers=4, timeout=300)
    ctx.model("Predicates", "Predicates.cfg", workers=2, timeout=300)
    hf, pf = ctx.path("growth_hist.json"), ctx.path("growth_pred.json")
    common.run_py(os.path.join(VERIF, "harness", "growth_run.py"), [hf, pf, ctx.seed, 200 if ctx.tier == "quick" else 3000])
    r = common.tlc("MC_HistoryTrace", "MC_HistoryTrace.cfg", env={"TRACE_FILE": hf}, workers=1, timeout=600)
    r2 = common.tlc("PredicatesJudge", "PredicatesJudge.cfg", env={"CASES_FILE": pf}, workers=1, timeout=600)
    n = 0
    for out, what in ((r.out, "History"), (r2.out, "isbatch/isnotification")):
        for m in re.finditer(r'<<"GROWTHFAIL", (\d+), "(\w+)", (\d+)>>', out):
            n += 1
            if n <= 5:
                print("GROWTH-FINDING (not a listed property): %s differs from its specification (case %s)" % (m.group(2), m.group(1)))
    ctx.cov.setdefault("growth", {})["history_predicates"] = {"history_traces": len(json.load(open(hf))), "predicate_cases": len(json.load(open(pf))),
                                                              "mismatches": n, "trace_states": r.distinct + r2.distinct}
    ctx.cov["transitions"] += r.generated + r2.generated


def run_http_layer(ctx):
    """HttpLayer.tla: one raw HTTP exchange with the request handler as a step machine; every request class of the model
    is sent to real SimpleJSONRPCServer / PooledJSONRPCServer listeners (quick: a sample)."""
    ctx.model("MC_HttpLayer", "MC_HttpLayer_TRUE.cfg", workers=4, timeout=300)
    cases = casejudge.enumerate_cases(ctx, "MC_HttpLayer", "MC_HttpLayer_FALSE.cfg", workers=4, timeout=300)
    if ctx.tier == "quick":
        import random
        cases = random.Random(ctx.seed).sample(cases, min(len(cases), 500))
    cf, of = ctx.path("growth_http_cases.json"), ctx.path("growth_http.json")
    json.dump(cases, open(cf, "w"))
    common.run_py(os.path.join(VERIF, "harness", "http_run.py"), ["run", cf, of, ctx.seed])
    r = common.tlc("HttpLayerJudge", "HttpLayerJudge.cfg", env={"CASES_FILE": of}, workers=1, timeout=600)
    if r.errors or not r.finished:
        raise common.MachineryError("HttpLayerJudge did not complete:\n" + "\n".join(r.errors)[:1500])
    recs = json.load(open(of))
    n = 0
    for m in re.finditer(r'<<"GROWTHFAIL", (\d+), "(\w+)", (\d+)>>', r.out):
        n += 1
        if n <= 5:
            q = recs[int(m.group(1)) - 1]
            print("GROWTH-FINDING (not a listed property): %s differs from HttpLayer.tla for %s on the %s server: observed %s" % (
                m.group(2), json.dumps(q["req"]), q["server"], json.dumps(q["obs"])))
    ctx.cov.setdefault("growth", {})["http_layer"] = {"exchanges": len(recs), "mismatches": n, "judge_states": r.distinct,
                                                     "documented_gap": "gzip-encoded request bodies are never served (GzipServed fails for GzipFirst = FALSE)"}
    ctx.cov["transitions"] += r.generated


def run_client_session(ctx):
    """ClientSession.tla: ServerProxy + History + MultiCall life cycle against a raw peer with injected 500 answers;
    recorded operation words are replayed as spec actions (ClientSessionTrace.tla)."""
    ctx.model("ClientSession", "ClientSession.cfg", workers=4, timeout=600)
    tf = ctx.path("growth_session.json")
    common.run_py(os.path.join(VERIF, "harness", "session_run.py"), ["run", tf, ctx.seed, 150 if ctx.tier == "quick" else 3000])
    r = common.tlc("ClientSessionTrace", "ClientSessionTrace.cfg", env={"TRACE_FILE": tf}, workers=1, timeout=900)
    if r.errors or not r.finished:
        raise common.MachineryError("ClientSessionTrace did not complete:\n" + "\n".join(r.errors)[:1500])
    traces = json.load(open(tf))
    bad = {}
    for m in re.finditer(r'<<"GROWTHFAIL", (\d+), "(\w+)", (\d+)>>', r.out):
        bad.setdefault(int(m.group(1)), int(m.group(3)))
    for t, l in list(bad.items())[:5]:
        e = traces[t - 1]["ev"][l - 1]
        print("GROWTH-FINDING (not a listed property): ClientSession.tla does not explain operation %d (%s, fails=%s) of a recorded word: "
              "observed %s" % (l, e["op"], e["f"], json.dumps({k: e[k] for k in ("jobs", "hreq", "hresp", "opened", "last")})))
    ctx.cov.setdefault("growth", {})["client_session"] = {"words": len(traces), "operations": sum(len(t["ev"]) for t in traces),
                                                         "mismatching_words": len(bad), "trace_states": r.distinct}
    ctx.cov["transitions"] += r.generated


def run_registry(ctx):
    """Registry.tla: registration words on a real dispatcher, resolution order and system.listMethods after every step."""
    ctx.model("Registry", "Registry.cfg", workers=4, timeout=300)
    tf = ctx.path("growth_registry.json")
    common.run_py(os.path.join(VERIF, "harness", "registry_run.py"), ["run", tf, ctx.seed, 150 if ctx.tier == "quick" else 3000])
    r = common.tlc("RegistryTrace", "RegistryTrace.cfg", env={"TRACE_FILE": tf}, workers=1, timeout=900)
    if r.errors or not r.finished:
        raise common.MachineryError("RegistryTrace did not complete:\n" + "\n".join(r.errors)[:1500])
    traces = json.load(open(tf))
    bad = {}
    for m in re.finditer(r'<<"GROWTHFAIL", (\d+), "(\w+)", (\d+)>>', r.out):
        bad.setdefault(int(m.group(1)), int(m.group(3)))
    for t, l in list(bad.items())[:5]:
        e = traces[t - 1]["ev"][l - 1]
        print("GROWTH-FINDING (not a listed property): Registry.tla does not explain the dispatcher after operation %d (%s) of a recorded word: "
              "probe %s listed %s" % (l, e["op"], json.dumps(e["probe"]), json.dumps(e["listed"])))
    ctx.cov.setdefault("growth", {})["registry"] = {"words": len(traces), "operations": sum(len(t["ev"]) for t in traces),
                                                   "mismatching_words": len(bad), "trace_states": r.distinct}
    ctx.cov["transitions"] += r.generated


def run_fault_obj(ctx):
    """FaultObj.tla: response() / dump() words on a real Fault object (sticky truthy id, per-call version, untouched Config)."""
    ctx.model("FaultObj", "FaultObj.cfg", workers=2, timeout=300)
    tf = ctx.path("growth_fault.json")
    common.run_py(os.path.join(VERIF, "harness", "faultobj_run.py"), ["run", tf, ctx.seed, 200 if ctx.tier == "quick" else 4000])
    r = common.tlc("FaultObjTrace", "FaultObjTrace.cfg", env={"TRACE_FILE": tf}, workers=1, timeout=900)
    if r.errors or not r.finished:
        raise common.MachineryError("FaultObjTrace did not complete:\n" + "\n".join(r.errors)[:1500])
    traces = json.load(open(tf))
    bad = {}
    for m in re.finditer(r'<<"GROWTHFAIL", (\d+), "(\w+)", (\d+)>>', r.out):
        bad.setdefault(int(m.group(1)), int(m.group(3)))
    for t, l in list(bad.items())[:5]:
        print("GROWTH-FINDING (not a listed property): FaultObj.tla does not explain call %d of a recorded word: %s" % (l, json.dumps(traces[t - 1]["ev"][l - 1])))
    ctx.cov.setdefault("growth", {})["fault_object"] = {"words": len(traces), "calls": sum(len(t["ev"]) for t in traces),
                                                       "mismatching_words": len(bad), "trace_states": r.distinct}
    ctx.cov["transitions"] += r.generated


def safely(ctx, fn):
    """Growth runs never decide a listed property: a failure of theirs is reported, it does not change the verdict."""
    try:
        fn(ctx)
    except Exception as e:  # noqa
        print("GROWTH-NOTE: %s could not complete (%s: %s)" % (fn.__name__, type(e).__name__, str(e)[:300].replace("\n", " | ")))
        ctx.cov.setdefault("growth", {})[fn.__name__] = {"incomplete": str(e)[:300]}
