"""Spec growth beyond the listed properties (DESIGN 3.2 / II.8).  These specifications are model-checked and bound to
the code like the others, but a mismatch is reported as a GROWTH-FINDING line (informational), never as a VIOLATION:
the behaviour is not part of any listed property."""
import json
import os
import re

from harness import common, casejudge
from harness.common import VERIF


def run_history_and_predicates(ctx):
    ctx.model("History", "MC_History.cfg", workers=4, timeout=300)
    ctx.model("Predicates", "Predicates.cfg", workers=2, timeout=300)
    hf, pf = ctx.path("growth_hist.json"), ctx.path("growth_pred.json")
    common.run_py(os.path.join(VERIF, "harness", "growth_run.py"), [hf, pf, ctx.seed, 200 if ctx.tier == "quick" else 3000])
    r = common.tlc("MC_HistoryTrace", "MC_HistoryTrace.cfg", env={"TRACE_FILE": hf}, workers=1, timeout=600)
    r2 = common.tlc("PredicatesJudge", "PredicatesJudge.cfg", env={"CASES_FILE": pf}, workers=1, timeout=600)
    n = 0
    for out, what in ((r.out, "History"), (r2.out, "isbatch/isnotification")):
        for m in re.finditer(r'<<"GROWTHFAIL", (\d+), "(\w+)", (\d+)>>', out):
            n += 1
            if n <= 5:
                print("GROWTH-FINDING (not a listed property): %s differs from its specification (case %s)" % (m.group(2), m.group(1)))
    ctx.cov.setdefault("growth", {})["history_predicates"] = {"history_traces": len(json.load(open(hf))), "predicate_cases": len(json.load(open(pf))),
                                                              "mismatches": n, "trace_states": r.distinct + r2.distinct}
    ctx.cov["transitions"] += r.generated + r2.generated
