"""C14: message construction.  Model: spec/Envelope.tla (decision function over the abstract argument domain, all
14 080 cases enumerated by TLC, clauses of the statement checked on the model); binding: every case concretised
against the real dump/dumps/loads; judge: EnvelopeJudge.tla evaluates the property predicates on the concrete
records through the value bridge."""
import json
import os
import random

from harness import common, casejudge
from harness.common import VERIF


def run(ctx):
    ctx.cov["rule"] = ("one case = one abstract argument class combination (method x params x rpcid x version x flags x config "
                       "version) from TLC's enumeration, concretised k times; distinct = distinct abstract cases; non-trivial = the "
                       "statement speaks about the combination (judged)")
    ctx.cov["trusted_base"] = ["harness/values.py (value bridge)", "json module of the standard library", "TLC"]
    ctx.cov["exhaustive"] = True
    cases = casejudge.enumerate_cases(ctx, "MC_Envelope", "MC_Envelope.cfg")
    quick = ctx.tier == "quick"
    rnd = random.Random(ctx.seed)
    judged = [c for c in cases if c["judged"]]
    other = [c for c in cases if not c["judged"]]
    if quick:
        other = rnd.sample(other, min(len(other), 800))
    sel = judged + other
    parts = list(common.chunks(sel, (len(sel) + 7) // 8))
    allrec, nfail = [], 0
    for j, part in enumerate(parts):
        cf, of = ctx.path("cases%d.json" % j), ctx.path("recs%d.json" % j)
        json.dump(part, open(cf, "w"))
        common.run_py(os.path.join(VERIF, "harness", "envelope_run.py"), [cf, of, ctx.seed * 16 + j, 1 if quick else 4])
        recs = json.load(open(of))
        fails, drifts = casejudge.judge(ctx, "EnvelopeJudge", of, "EnvelopeJudge.cfg")
        for i, r in enumerate(recs, 1):
            key = json.dumps(r["a"], sort_keys=True)
            ctx.cov["evaluations"] += 1
            if r["judged"]:
                ctx._distinct.add(key)
            for name in sorted(fails.get(i, ())):
                a = r["a"]
                sig = "%s:id=%s,ver=%s%s%s" % (name, a["id"], "2" if (a["v"] in ("2f", "2s") or (a["v"] == "none" and a["cv"] == "2")) else "1",
                                                      ",resp" if a["resp"] else "", ",notify" if a["notify"] else "")
                ctx.violation(sig, "%s fails for %s -> dump %s / dumps %s" % (name, r["repr"], r["dump"]["kind"], r["dumps"]["kind"]),
                              {"kind": "input", "case": r})
            for name in sorted(drifts.get(i, ())):
                ctx.note_drift("unjudged combination behaves differently from the model (%s): %s" % (name, r["repr"]))
            if not fails.get(i) and not drifts.get(i):
                ctx.cov["traces_validated_against_impl"] += 1
        if j == 0:
            for r in recs[:3]:
                ctx.sample({"call": r["repr"], "dump": r["dump"]["kind"]})
    # the same predicates when another caller's complete dump() falls between two lines of this one (two threads): ids
    # stay verbatim / unique, members stay those of the own call
    cf, of = ctx.path("cases_il.json"), ctx.path("recs_il.json")
    json.dump(judged, open(cf, "w"))
    common.run_py(os.path.join(VERIF, "harness", "envelope_run.py"), ["interleave", cf, of, ctx.seed, 60 if quick else 600, 24 if quick else 400])
    recs = json.load(open(of))
    fails, _ = casejudge.judge(ctx, "EnvelopeJudge", of, "EnvelopeJudge.cfg")
    for i, r in enumerate(recs, 1):
        ctx.cov["evaluations"] += 1
        for name in sorted(n for n in fails.get(i, ()) if n.startswith("dump:")):
            a = r["a"]
            ctx.violation("%s:interleaved:id=%s" % (name, a["id"]), "%s fails for %s -> %s" % (name, r["repr"], r["dump"]["kind"]),
                          {"kind": "interleaving", "case": r})
        if not [n for n in fails.get(i, ()) if n.startswith("dump:")]:
            ctx.cov["traces_validated_against_impl"] += 1
    # spec growth (not part of the verdict): the Fault object as a state machine
    from checks import growth
    growth.safely(ctx, growth.run_fault_obj)


def replay(ctx, path):
    rp = json.load(open(path))
    of = ctx.path("one.json")
    # re-run exactly that abstract case with several concretisations on the current tree
    json.dump([{"c": rp["case"]["a"], "judged": True}], open(ctx.path("c.json"), "w"))
    common.run_py(os.path.join(VERIF, "harness", "envelope_run.py"), [ctx.path("c.json"), of, ctx.seed, 8])
    fails, _ = casejudge.judge(ctx, "EnvelopeJudge", of, "EnvelopeJudge.cfg")
    recs = json.load(open(of))
    for i, names in fails.items():
        for n in names:
            if rp["sig"].startswith(n + ":"):
                ctx.violation(rp["sig"], "replayed: %s fails for %s" % (n, recs[i - 1]["repr"]), {"kind": "input", "case": recs[i - 1]})
    ctx.cov["states"] = max(1, ctx.cov.get("judge_states", 1))
    ctx.cov["transitions"] = max(1, ctx.cov["transitions"])
