"""C12: servers isolate concurrent clients and always shut down cleanly.  Model: spec/Server.tla (PlusCal: listening
socket, the socketserver shutdown flags - the 'is shut down' event initially NOT set -, accept loop, abstract request
pool, a controller running life-cycle words; TLC: OwnReply, ExecAtMostOnce, SocketClosedAfter, CloseTerminates as a
liveness property; FixClose = FALSE reproduces the original hang).  Binding, two tiers: (i) schedules - the real
PooledJSONRPCServer over in-memory connections with the real ThreadPool under the controlled scheduler
(ServerSchedJudge); (ii) transports and life-cycle - real TCP / Unix listeners, concurrent clients with unique tokens,
every life-cycle word under a watchdog, incl. closing with accepted requests still in flight (ServerJudge)."""
import json
import os
from concurrent.futures import ThreadPoolExecutor

from harness import common, casejudge
from harness.common import VERIF, PY
from checks.pool import run_parallel, pyenv

WORDS = [["C"], ["C", "C"], ["S", "R", "D", "C"], ["S", "R", "C"], ["S", "D", "C", "C"], ["S", "R", "D", "S", "R", "D", "C"],
         ["S", "D", "S", "R", "C"], ["S", "R", "R", "D", "C"], ["S", "A", "D", "C"], ["S", "A", "C"], ["S", "R", "A", "D", "C", "C"],
         ["S", "D", "C"], ["S", "R", "D", "C", "C"]]
POOLED_ONLY = (["S", "R", "C"], ["S", "D", "S", "R", "C"], ["S", "A", "C"])      # server_close() alone while serving: the pooled server stops its loop itself
CFGS = [["plain", "tcp", 0], ["plain", "unix", 0], ["pooled", "tcp", 0], ["pooled", "tcp", 1], ["pooled", "unix", 2], ["pooled", "tcp", 3],
        ["pooled", "unix", 0]]


def run(ctx):
    quick = ctx.tier == "quick"
    ctx.cov["rule"] = ("cases: (i) executions of the real PooledJSONRPCServer over in-memory connections under controlled schedules; (ii) "
                       "life-cycle words on real listeners x server class x transport x pool; distinct = distinct (word, class, transport, pool) "
                       "or schedule seeds")
    ctx.cov["trusted_base"] = ["harness/detsched.py", "in-memory socket objects of harness/server_sched.py", "watchdog bound of 4 s in harness/server_run.py",
                               "socketserver / http.server of the standard library", "TLC", "pcal"]
    ctx.assumptions += ["server_close() alone on a serving *plain* server is outside the stated histories (standard-library contract)",
                        "connections still in the kernel's listen backlog at close time are not 'in flight'"]
    for c in ("MC_Server_W0_TRUE.cfg", "MC_Server_W2_TRUE.cfg"):
        ctx.model("MC_Server", c, workers=8, timeout=900)
    cmds, files = [], []
    reps = 1 if quick else 6
    for j in range(4):
        words = []
        for k, w in enumerate(WORDS * reps):
            if k % 4 != j:
                continue
            cfgs = [c for c in CFGS if c[0] == "pooled" or w not in POOLED_ONLY]
            words.append({"w": w, "cfgs": cfgs})
        wf, of = ctx.path("sw%d.json" % j), ctx.path("srv%d.json" % j)
        json.dump(words, open(wf, "w"))
        cmds.append(([PY, os.path.join(VERIF, "harness", "server_run.py"), "run", wf, of, str(ctx.seed * 8 + j), ctx.dir], pyenv()))
        files.append(("life", of))
    for j in range(4):
        of = ctx.path("ssched%d.json" % j)
        cmds.append(([PY, os.path.join(VERIF, "harness", "server_sched.py"), "run", of, str(ctx.seed * 8 + j), "150" if quick else "3000"], pyenv()))
        files.append(("sched", of))
    run_parallel(cmds, 2400)
    with ThreadPoolExecutor(max_workers=8) as ex:
        verdicts = list(ex.map(lambda kf: casejudge.judge(ctx, "ServerJudge" if kf[0] == "life" else "ServerSchedJudge", kf[1],
                                                          ("ServerJudge" if kf[0] == "life" else "ServerSchedJudge") + ".cfg"), files))
    # Real listeners run under the operating system's scheduler with a watchdog bound: a failing word is first
    # re-executed alone - same word, same configuration, same client kinds - with a much longer (40 s) bound; only what fails
    # again is a verdict (a loaded machine must never turn into an alarm).
    suspects, seen = [], set()
    for (kind, f), (fails, _) in zip(files, verdicts):
        if kind != "life":
            continue
        recs = json.load(open(f))
        for i in sorted(fails):
            r = recs[i - 1]
            key = json.dumps([r["word"], r["cls"], r["transport"], r["pool"], r["plan"]])
            if fails[i] and key not in seen and len(suspects) < 8:
                seen.add(key)
                suspects.append({"w": r["word"], "cfgs": [[r["cls"], r["transport"], r["pool"]]], "plan": r["plan"]})
    confirmed = None
    if suspects:
        wf, of = ctx.path("sw_confirm.json"), ctx.path("srv_confirm.json")
        json.dump(suspects + suspects, open(wf, "w"))
        env = pyenv()
        env["VERIF_SRV_BOUND"] = "40"
        run_parallel([([PY, os.path.join(VERIF, "harness", "server_run.py"), "run", wf, of, str(ctx.seed * 8 + 7), ctx.dir], env)], 3000)
        confirmed = (of, casejudge.judge(ctx, "ServerJudge", of, "ServerJudge.cfg")[0])
        ctx.cov["confirmation_pass"] = {"suspect_words": len(suspects), "failing_again": len(confirmed[1])}
        if not confirmed[1]:
            print("NOTE: %d life-cycle word(s) failed within the 4 s watchdog bound but not when re-executed alone with a 40 s bound: "
                  "attributed to machine load, no verdict" % len(suspects))
    for (kind, f), (fails, _) in list(zip(files, verdicts)) + ([(("life", confirmed[0]), (confirmed[1], None))] if confirmed else []):
        recs = json.load(open(f))
        if kind == "life" and not (confirmed and f == confirmed[0]):
            fails = {}                 # first pass on real listeners: screening only
        for i, r in enumerate(recs, 1):
            ctx.cov["evaluations"] += 1
            if kind == "life":
                ctx._distinct.add(json.dumps([r["word"], r["cls"], r["transport"], r["pool"]]))
            else:
                ctx._distinct.add("sched:%d" % r["seed"])
            for name in sorted(fails.get(i, ())):
                if kind == "life":
                    sig = "%s:%s:%s:%s" % (name, r["cls"] + ("-userpool" if r["pool"] else ""), "".join(r["word"]), r["transport"])
                    what = "%s fails for the life-cycle word %s on a %s server (%s, pool %s): calls %s, replies %s, fileno %s, alive workers %s" % (
                        name, r["word"], r["cls"], r["transport"], r["pool"], [(c["op"], c["returned"], c["exc"]) for c in r["calls"]],
                        [(x["kind"], x["status"], x["execs"]) for x in r["replies"]][:8], r["fileno"], r["alive_workers"])
                    rp = {"kind": "word", "word": r["word"], "cls": r["cls"], "transport": r["transport"], "pool": r["pool"]}
                else:
                    sig = "%s:sched:%s" % (name, "+".join(sorted(set(q["kind"] for q in r["reqs"]))))
                    what = "%s fails under a controlled schedule (seed %d, pool max %d): %s, closed=%s returned=%s alive=%s" % (
                        name, r["seed"], r["maxw"], [(q["kind"], q["tokens"], q["want"], q["execs"]) for q in r["reqs"]], r["closed"], r["close_returned"], r["alive_workers"])
                    rp = {"kind": "schedule", "seed": r["seed"]}
                ctx.violation(sig, what, rp)
            if not fails.get(i):
                ctx.cov["traces_validated_against_impl"] += 1
        if recs and len(ctx.cov["samples"]) < 4:
            r = recs[0]
            ctx.sample({k: r[k] for k in (("word", "cls", "transport", "pool", "calls") if kind == "life" else ("seed", "maxw", "end", "closed"))})


def replay(ctx, path):
    raise common.MachineryError("C12 replays: re-derive by running the check; the stored word / seed identifies the execution")
