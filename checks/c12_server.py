"""C12: servers isolate concurrent clients and always shut down cleanly.  Model: spec/Server.tla (PlusCal: listening
socket, the socketserver shutdown flags - the 'is shut down' event initially NOT set -, accept loop, abstract request
pool, a controller running life-cycle words; TLC: OwnReply, ExecAtMostOnce, SocketClosedAfter, CloseTerminates as a
liveness property; FixClose = FALSE reproduces the original hang).  Binding, two tiers: (i) schedules - the real
PooledJSONRPCServer over in-memory connections with the real ThreadPool under the controlled scheduler
(ServerSchedJudge); (ii) transports and life-cycle - real TCP / Unix listeners, concurrent clients with unique tokens,
every life-cycle word under a watchdog, incl. closing with accepted requests still in flight (ServerJudge)."""
import json
import os
from concurrent.futures import ThreadPoolExecutor

from harness import common, casejudge
from harness.common import VERIF, PY
from checks.pool import run_parallel, pyenv

WORDS = [["C"], ["C", "C"], ["S", "R", "D", "C"], ["S", "R", "C"], ["S", "D", "C", "C"], ["S", "R", "D", "S", "R", "D", "C"],
         ["S", "D", "S", "R", "C"], ["S", "R", "R", "D", "C"], ["S", "A", "D", "C"], ["S", "A", "C"], ["S", "R", "A", "D", "C", "C"],
         ["S", "D", "C"], ["S", "R", "D", "C", "C"]]
POOLED_ONLY = (["S", "R", "C"], ["S", "D", "S", "R", "C"], ["S", "A", "C"])      # server_close() alone while serving: the pooled server stops its loop itself
CFGS = [["plain", "tcp", 0], ["plain", "unix", 0], ["pooled", "tcp", 0], ["pooled", "tcp", 1], ["pooled", "unix", 2], ["pooled", "tcp", 3],
        ["pooled", "unix", 0]]


def run(ctx):
    quick = ctx.tier == "quick"
    ctx.cov["rule"] = ("cases: (i) executions of the real PooledJSONRPCServer over in-memory connections under controlled schedules; (ii) "
                       "life-cycle words on real listeners x server class x transport x pool; distinct = distinct (word, class, transport, pool) "
                       "or schedule seeds")
    ctx.cov["trusted_base"] = ["harness/detsched.py", "in-memory socket objects of harness/server_sched.py", "watchdog bound of 4 s in harness/server_run.py",
                               "socketserver / http.server of the standard library", "TLC", "pcal"]
    ctx.assumptions += ["server_close() alone on a serving *plain* server is outside the stated histories (standard-library contract)",
                        "connections still in the kernel's listen backlog at close time are not 'in flight'"]
    for c in ("MC_Server_W0_TRUE.cfg", "MC_Server_W2_TRUE.cfg"):
        ctx.model("MC_Server", c, workers=8, timeout=900)
    cmds, files = [], []
    reps = 1 if quick else 6
    for j in range(4):
        words = []
        for k, w in enumerate(WORDS * reps):
            if k % 4 != j:
                continue
            cfgs = [c for c in CFGS if c[0] == "pooled" or w not in POOLED_ONLY]
            words.append({"w": w, "cfgs": cfgs})
        wf, of = ctx.path("sw%d.json" % j), ctx.path("srv%d.json" % j)
        json.dump(words, open(wf, "w"))
        cmds.append(([PY, os.path.join(VERIF, "harness", "server_run.py"), "run", wf, of, str(ctx.seed * 8 + j), ctx.dir], pyenv()))
        files.append(("life", of))
    for j in range(4):
        of = ctx.path("ssched%d.json" % j)
        cmds.append(([PY, os.path.join(VERIF, "harness", "server_sched.py"), "run", of, str(ctx.seed * 8 + j), "150" if quick else "3000"], pyenv()))
        files.append(("sched", of))
    run_parallel(cmds, 2400)
    with ThreadPoolExecutor(max_workers=8) as ex:
        verdicts = list(ex.map(lambda kf: casejudge.judge(ctx, "ServerJudge" if kf[0] == "life" else "ServerSchedJudge", kf[1],
                                                          ("ServerJudge" if kf[0] == "life" else "ServerSchedJudge") + ".cfg"), files))
    for (kind, f), (fails, _) in zip(files, verdicts):
        recs = json.load(open(f))
        for i, r in enumerate(recs, 1):
            ctx.cov["evaluations"] += 1
            if kind == "life":
                ctx._distinct.add(json.dumps([r["word"], r["cls"], r["transport"], r["pool"]]))
            else:
                ctx._distinct.add("sched:%d" % r["seed"])
            for name in sorted(fails.get(i, ())):
                if kind == "life":
                    sig = "%s:%s:%s:%s" % (name, r["cls"] + ("-userpool" if r["pool"] else ""), "".join(r["word"]), r["transport"])
                    what = "%s fails for the life-cycle word %s on a %s server (%s, pool %s): calls %s, replies %s, fileno %s, alive workers %s" % (
                        name, r["word"], r["cls"], r["transport"], r["pool"], [(c["op"], c["returned"], c["exc"]) for c in r["calls"]],
                        [(x["kind"], x["status"], x["execs"]) for x in r["replies"]][:8], r["fileno"], r["alive_workers"])
                    rp = {"kind": "word", "word": r["word"], "cls": r["cls"], "transport": r["transport"], "pool": r["pool"]}
                else:
                    sig = "%s:sched:%s" % (name, "+".join(sorted(set(q["kind"] for q in r["reqs"]))))
                    what = "%s fails under a controlled schedule (seed %d, pool max %d): %s, closed=%s returned=%s alive=%s" % (
                        name, r["seed"], r["maxw"], [(q["kind"], q["tokens"], q["want"], q["execs"]) for q in r["reqs"]], r["closed"], r["close_returned"], r["alive_workers"])
                    rp = {"kind": "schedule", "seed": r["seed"]}
                ctx.violation(sig, what, rp)
            if not fails.get(i):
                ctx.cov["traces_validated_against_impl"] += 1
        if recs and len(ctx.cov["samples"]) < 4:
            r = recs[0]
            ctx.sample({k: r[k] for k in (("word", "cls", "transport", "pool", "calls") if kind == "life" else ("seed", "maxw", "end", "closed"))})


def replay(ctx, path):
    raise common.MachineryError("C12 replays: re-derive by running the check; the stored word / seed identifies the execution")
