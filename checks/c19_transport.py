"""C19: transport faults are contained and the proxy recovers.  Model: spec/Transport.tla (cached connection state x
fault item -> outcome, retry loop, unread / stale connections; TLC: every fault word up to length 3 (thorough: 4) with a
healthy tail, Recovers + HealthyAtEnd); binding: the words are replayed on a real ServerProxy against the scripted
raw-socket peer over TCP and a Unix socket, every call carrying a unique token; judge: TransportJudge.tla - stage A
(outcome class, status, connection state, requests seen by the peer as modelled) and stage B (OwnOrRaise,
TransportErrorFields, Recovers on observable facts)."""
import json
import os
import random
from concurrent.futures import ThreadPoolExecutor

from harness import common, casejudge
from harness.common import VERIF, PY
from checks.pool import run_parallel, pyenv

RUN = os.path.join(VERIF, "harness", "transport_run.py")
ITEMS = ["H", "HC", "RF", "CB", "RS", "E4L", "E5L", "E5N", "BS", "B3", "B103", "B104", "TR", "TRC", "E0", "NJ", "S202", "S203"]


def run(ctx):
    quick = ctx.tier == "quick"
    ctx.cov["rule"] = ("one case = one fault word (each item applied to one call of one ServerProxy, healthy calls after it) replayed against "
                       "the scripted peer over TCP or a Unix socket; distinct = distinct (word, transport); non-trivial = the word contains a fault")
    ctx.cov["trusted_base"] = ["harness/netpeer.py (scripted raw-socket peer)", "http.client / xmlrpc.client of the standard library",
                               "the unread-response probe (private attribute of HTTPConnection)", "TLC"]
    ctx.cov["exhaustive"] = True
    words = casejudge.enumerate_cases(ctx, "MC_Transport", "MC_Transport_%d.cfg" % (2 if quick else 3), workers=8)
    rnd = random.Random(ctx.seed)
    extra = []
    if quick:
        extra = [{"w": [rnd.choice(ITEMS) for _ in range(3)]} for _ in range(200)]
    else:
        ctx.model("MC_Transport", "MC_Transport_4.cfg", workers=16, timeout=1500, heap="8g")
        extra = [{"w": [rnd.choice(ITEMS) for _ in range(rnd.randint(4, 6))]} for _ in range(2500)]
    # one long history of faults that produce no response text, on a proxy with an attached History
    extra.append({"w": ["H"] + ["E5L"] * 24})
    allw = words + extra
    nparts = 8
    cmds, files = [], []
    for kind in ("tcp", "unix"):
        sel = allw if (kind == "tcp" or not quick) else [w for w in allw if len(w["w"]) <= 2]
        for j, part in enumerate(common.chunks(sel, (len(sel) + nparts - 1) // nparts)):
            wf, of = ctx.path("w_%s_%d.json" % (kind, j)), ctx.path("tr_%s_%d.json" % (kind, j))
            json.dump(part, open(wf, "w"))
            cmds.append(([PY, RUN, "run", wf, of, str(ctx.seed * 64 + j + (32 if kind == "unix" else 0)), kind, ctx.dir], pyenv()))
            files.append((kind, of))
    run_parallel(cmds, 2400)
    with ThreadPoolExecutor(max_workers=6) as ex:
        verdicts = list(ex.map(lambda kf: casejudge.judge(ctx, "TransportJudge", kf[1], "TransportJudge.cfg", timeout=2400), files))
    for (kind, f), (fails, drifts) in zip(files, verdicts):
        recs = json.load(open(f))
        for i, r in enumerate(recs, 1):
            ctx.cov["evaluations"] += 1
            if any(x != "H" for x in r["word"]):
                ctx._distinct.add(kind + ":" + ",".join(r["word"]))
            for name in sorted(fails.get(i, ())):
                outcome = [(c["item"], c["kind"], c["exc"] or c["val"][:12], c["errcode"]) for c in r["calls"]]
                ctx.violation("%s:%s" % (name, ",".join(r["word"]) if len(r["word"]) <= 2 else ",".join(sorted(set(r["word"])))),
                              "%s fails for the fault word %s over %s: per-call outcomes %s" % (name, r["word"], kind, outcome),
                              {"kind": "word", "word": r["word"], "transport": kind})
            for name in sorted(drifts.get(i, ())):
                ctx.note_drift("fault word %s over %s: outcomes differ from Transport.tla: %s" % (
                    r["word"], kind, [(c["item"], c["kind"], c["exc"], c["errcode"], c["unread_before"], c["own_seen"]) for c in r["calls"]]))
            if not fails.get(i):
                ctx.cov["traces_validated_against_impl"] += 1
        if recs and len(ctx.cov["samples"]) < 3:
            r = recs[-1]
            ctx.sample({"word": r["word"], "transport": kind, "outcomes": [(c["item"], c["kind"], c["exc"], c["errcode"]) for c in r["calls"]]})


def replay(ctx, path):
    rp = json.load(open(path))
    wf, of = ctx.path("w.json"), ctx.path("t.json")
    json.dump([{"w": rp["word"]}], open(wf, "w"))
    common.run_py(RUN, ["run", wf, of, ctx.seed, rp.get("transport", "tcp"), ctx.dir])
    fails, _ = casejudge.judge(ctx, "TransportJudge", of, "TransportJudge.cfg")
    for i, names in fails.items():
        for n in names:
            if rp["sig"].startswith(n + ":"):
                ctx.violation(rp["sig"], "replayed: %s fails for %s" % (n, rp["word"]), rp)
    ctx.cov["states"] = max(1, ctx.cov.get("judge_states", 1))
    ctx.cov["transitions"] = max(1, ctx.cov["transitions"])
