"""C13: replies depend only on the request; serving never changes the Config objects; Config.copy() does not alias.
(1) DispatcherConc.tla: concurrent handlers at the granularity of Config.version accesses (TLC exhaustive), real
dispatcher under systematic preemption-bounded schedules judged by DConcTrace / DConcObs; (2) sequential histories
on one dispatcher instance judged by DispatcherJudge (Form, ConfigUntouched); (3) ConfigObj.tla: every mutation word
on {original, copy} (TLC exhaustive), replayed on real Config objects and judged by ConfigObjJudge."""
import json
import os

from harness import common, casejudge
from harness.common import VERIF
from checks import dconc, dispatcher


def config_copy(ctx):
    cfgname = "gen_ConfigObj_%d.cfg" % os.getpid()
    with open(os.path.join(common.SPEC, cfgname), "w") as f:
        f.write("SPECIFICATION Spec\nCONSTANT MaxLen = %d\nINVARIANT NoAliasing\nINVARIANT Emit\nCHECK_DEADLOCK FALSE\n" % (2 if ctx.tier == "quick" else 3))
    words = casejudge.enumerate_cases(ctx, "MC_ConfigObj", cfgname, workers=8)
    os.remove(os.path.join(common.SPEC, cfgname))
    wf, of = ctx.path("words.json"), ctx.path("cfgrecs.json")
    json.dump(words, open(wf, "w"))
    common.run_py(os.path.join(VERIF, "harness", "configobj_run.py"), [wf, of])
    recs = json.load(open(of))
    fails, _ = casejudge.judge(ctx, "ConfigObjJudge", of, "ConfigObjJudge.cfg")
    for i, r in enumerate(recs, 1):
        ctx.cov["evaluations"] += 1
        ctx._distinct.add("word:" + json.dumps(r["word"], sort_keys=True))
        for name in sorted(fails.get(i, ())):
            w = ["%s.%s:%s" % (m["side"], m["f"], m["op"]) for m in r["word"]]
            ctx.violation("%s:%s" % (name, ",".join(sorted(set("%s:%s" % (m["f"], m["op"]) for m in r["word"])))),
                          "%s fails after the mutation word %s on Config / Config.copy()" % (name, w), {"kind": "word", "word": r["word"]})
        if not fails.get(i):
            ctx.cov["traces_validated_against_impl"] += 1
    ctx.sample({"mutation_word": recs[0]["word"]})


def run(ctx):
    ctx.cov["rule"] = ("cases: (a) recorded executions of two or three concurrent request threads on one real dispatcher (request kinds x "
                       "server version x notification pool) under systematic preemption-bounded and random schedules; (b) request "
                       "histories on one dispatcher instance; (c) mutation words on Config / Config.copy(). distinct = distinct event "
                       "sequences / bodies / words")
    ctx.cov["trusted_base"] = ["harness/detsched.py", "Config field interception in harness/dconc_rec.py", "harness/values.py", "TLC", "pcal"]
    ctx.assumptions += ["the 1.0-form clause is applied to requests that pass validation (lenient reading)",
                        "schedule exploration: all schedules with <= 1 preemption at Config accesses (thorough: <= 2, capped), plus random"]
    dconc.model_runs(ctx)
    dconc.record_and_judge(ctx, {"ConfigUntouched", "Form"})
    files = dispatcher.record(ctx, ctx.tier == "quick")
    ctx.cov["traces_validated_against_impl"] += dispatcher.judge_files(ctx, files, dispatcher.FORMULAS["C13"])
    config_copy(ctx)


def replay(ctx, path):
    rp = json.load(open(path))
    raise common.MachineryError("C13 replays are re-derived by running the check itself (deterministic exploration); stored: %s" % rp.get("kind"))
