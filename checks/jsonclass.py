"""C07, C08, C15, C20: the class translator.  Model: spec/JsonClass.tla (dump / load as recursive operators over the
value universe + a class table shared with the class generator), TLC exhaustive over a small closed universe
(MC_JsonClass: round trip, JSON shapes only, ignored names absent, handler output verbatim) and over all short class
names (MC_JsonClassNames); binding: generated real classes and object graphs pushed through the real dump / load /
ServerProxy<->dispatcher; judge: JsonClassJudge.tla compares the real dump with Dump(orig) at every depth, the real
reload with NormV(orig), and snapshots before/after; NamesJudge.tla for C08."""
import json
import os
from concurrent.futures import ThreadPoolExecutor

from harness import common, casejudge
from harness.common import VERIF, PY
from checks.pool import run_parallel, pyenv

RUN = os.path.join(VERIF, "harness", "jsonclass_run.py")
FORMULAS = {
    "C07": {"beans": {"DumpSucceeds", "LoadSucceeds", "RoundTrip", "LoadAsSpecified", "OnlyJsonOut"},
            "rpc": {"RpcTransparent", "LoadSucceeds"}},
    "C15": {"plain": {"DumpSucceeds", "OnlyJsonOut", "BackendSerialisable", "LoadSucceeds", "RoundTrip", "PureDump", "PureLoad"},
            "beans": {"PureDump", "PureLoad", "OnlyJsonOut"}, "fail": {"PureDump", "PureLoad", "OnlyJsonOut", "DumpSucceeds"}, "custom": {"PureDump"}, "rpc": {"PureDump"}},
    "C20": {"custom": {"DumpSucceeds", "DumpAsSpecified"}, "beans": {"DumpAsSpecified"}},
}
MODES = {"C07": ["beans", "rpc"], "C15": ["plain", "beans", "fail"], "C20": ["custom", "beans"]}


def classes_in(rec):
    out = set()

    def walk(r):
        if r["k"] in ("obj", "enum", "decimal"):
            out.add(r["cls"])
        for x in r["items"]:
            walk(x)
    walk(rec)
    return sorted(out)


def run_dumpload(ctx):
    quick = ctx.tier == "quick"
    ctx.model("MC_JsonClass", "MC_JsonClass.cfg", workers=8, timeout=900)
    cmds, files = [], []
    n = 250 if quick else 4000
    for mode in MODES[ctx.prop]:
        for j in range(2 if quick else 6):
            of = ctx.path("jc_%s_%d.json" % (mode, j))
            cmds.append(([PY, RUN, "run", of, str(ctx.seed * 16 + j), str(n), mode], pyenv()))
            files.append((mode, of))
    run_parallel(cmds, 2400)
    with ThreadPoolExecutor(max_workers=6) as ex:
        verdicts = list(ex.map(lambda mf: casejudge.judge(ctx, "JsonClassJudge", mf[1], "JsonClassJudge.cfg", timeout=2400), files))
    for (mode, f), (fails, _) in zip(files, verdicts):
        recs = json.load(open(f))
        mine = FORMULAS[ctx.prop].get(mode, set())
        for i, r in enumerate(recs, 1):
            ctx.cov["evaluations"] += 1
            cl = classes_in(r["orig"])
            ctx._distinct.add(json.dumps([mode, r["orig"]], sort_keys=True)[:4000])
            bad = sorted(set(fails.get(i, ())) & mine)
            drift = sorted(set(fails.get(i, ())) - mine)
            for name in bad:
                ctx.violation("%s:%s:%s" % (name, mode, "+".join(cl)[:50]), "%s fails (%s) for an object graph with classes %s: dump %s %s / load %s %s" % (
                    name, mode, cl, r["dumped"]["ok"], r["dumped"]["exc"], r["loaded"]["ok"], r["loaded"]["exc"]),
                    {"kind": "input", "mode": mode, "orig": r["orig"], "cfg": r["cfg"]})
            for name in drift:
                if name in ("DumpAsSpecified", "LoadAsSpecified"):
                    ctx.note_drift("%s (%s): the real dump/load differs from JsonClass.tla for classes %s" % (name, mode, cl))
            if not bad:
                ctx.cov["traces_validated_against_impl"] += 1
        if recs and len(ctx.cov["samples"]) < 4:
            ctx.sample({"mode": mode, "classes": classes_in(recs[0]["orig"]), "dump_ok": recs[0]["dumped"]["ok"], "load_ok": recs[0]["loaded"]["ok"]})


def run_import_race(ctx):
    """C07: load() while the module of the class is still being imported by another thread's load() (gate inside the
    module body): both threads get the bean."""
    of, d = ctx.path("importrace.json"), ctx.path("slowmods")
    common.run_py(os.path.join(VERIF, "harness", "importrace_run.py"), ["run", of, ctx.seed, 6 if ctx.tier == "quick" else 60, d])
    recs = json.load(open(of))
    fails, _ = casejudge.judge(ctx, "ImportRaceJudge", of, "ImportRaceJudge.cfg")
    for i, r in enumerate(recs, 1):
        ctx.cov["evaluations"] += 1
        ctx._distinct.add("importrace:%d" % i)
        for name in sorted(fails.get(i, ())):
            ctx.violation("%s:module-path" % name, "%s: two concurrent load() calls of a module-qualified bean whose module was being imported: "
                          "first thread %s, second thread %s" % (name, r["t1"], r["t2"]), {"kind": "history", "case": r})
        if not fails.get(i):
            ctx.cov["traces_validated_against_impl"] += 1


def run_names(ctx):
    quick = ctx.tier == "quick"
    words = casejudge.enumerate_cases(ctx, "MC_JsonClassNames", "MC_JsonClassNames_%d.cfg" % (3 if quick else 4), workers=8)
    if not quick:
        import random
        rnd = random.Random(ctx.seed)
        short = [w for w in words if len(w["w"]) <= 3]
        longer = [w for w in words if len(w["w"]) > 3]
        words = short + rnd.sample(longer, min(len(longer), 6000))
    parts = list(common.chunks(words, (len(words) + 7) // 8))
    cmds, files = [], []
    for j, part in enumerate(parts):
        wf, of = ctx.path("words%d.json" % j), ctx.path("names%d.json" % j)
        json.dump(part, open(wf, "w"))
        d = ctx.path("canary%d" % j)
        os.makedirs(d, exist_ok=True)
        cmds.append(([PY, os.path.join(VERIF, "harness", "jcnames_run.py"), wf, of, str(ctx.seed * 8 + j), d], pyenv()))
        files.append(of)
    run_parallel(cmds, 2400)
    with ThreadPoolExecutor(max_workers=6) as ex:
        verdicts = list(ex.map(lambda f: casejudge.judge(ctx, "NamesJudge", f, "NamesJudge.cfg"), files))
    for f, (fails, _) in zip(files, verdicts):
        recs = json.load(open(f))
        for i, r in enumerate(recs, 1):
            ctx.cov["evaluations"] += 1
            ctx._distinct.add(json.dumps([r["w"], r["dk"]]))
            for name in sorted(fails.get(i, ())):
                bad = sorted(set(c for c in r["w"] if c not in ("letter", "digit", "underscore", "dot")))
                ctx.violation("%s:%s:%s" % (name, r["dk"], "+".join(bad) or ("empty" if not r["w"] else "valid")),
                              "%s fails for class name %r (descriptor shape %s): client %s, server %s / off: client %s, server %s" % (
                                  name, r["name"], r["dk"], r["client_on"], r["server_on"], r["client_off"], r["server_off"]),
                              {"kind": "input", "case": r})
            if not fails.get(i):
                ctx.cov["traces_validated_against_impl"] += 1
        if recs and len(ctx.cov["samples"]) < 3:
            ctx.sample({"name": recs[0]["name"], "shape": recs[0]["dk"], "client_on": recs[0]["client_on"]})


def run(ctx):
    ctx.cov["trusted_base"] = ["harness/values.py (value bridge)", "harness/classgen.py (classes generated from the class table)",
                               "import observation via builtins.__import__ wrapper + sys.addaudithook (C08)", "TLC"]
    if ctx.prop == "C08":
        ctx.cov["rule"] = ("one case = a class-name word over the alphabet classes x descriptor shape, concretised and decoded on the client "
                           "side and dispatched on the server side, translation on and off; distinct = (word, shape)")
        ctx.cov["exhaustive"] = True
        run_names(ctx)
    else:
        ctx.cov["rule"] = ("one case = one generated object graph / plain value pushed through the real dump and load (modes: plain data, "
                           "beans, customisation, corrupted input, RPC path); distinct = distinct encoded originals")
        ctx.assumptions += ["field values that coincide with an ignored name are not generated (the code drops such fields)",
                            "mangled slot names are outside the supported shapes (documented by the test-suite)"]
        run_dumpload(ctx)
        if ctx.prop == "C07":
            run_import_race(ctx)


def replay(ctx, path):
    raise common.MachineryError("jsonclass replays carry the encoded original; re-derive by running the check (seeded generation)")
