"""C18: custom headers compose by recency and are restored after a block.  Model: spec/Headers.tla (stack of header
dictionaries, Enter / Exit(normal | exception) / Call actions, Effective(stack)); TLC enumerates every history of
<= 3 events (thorough: 4) over a catalogue of 10 dictionaries with case-variant, protected and User-Agent names;
binding: the histories are executed on a real ServerProxy against the raw recording peer (TCP and Unix socket) and
replayed by TLC as actions of the spec (HeadersTrace): real stack = spec stack after every event, header lines received
= effective headers."""
import json
import os
import random
import re
from concurrent.futures import ThreadPoolExecutor

from harness import common, casejudge
from harness.common import MachineryError, VERIF, PY
from checks.pool import run_parallel, pyenv

RUN = os.path.join(VERIF, "harness", "headers_run.py")


def run(ctx):
    quick = ctx.tier == "quick"
    ctx.cov["rule"] = ("one case = one history of enter / exit(normal|exception) / call|notify|batch events over the dictionary catalogue, "
                       "executed on a real ServerProxy against the recording peer; distinct = distinct histories; non-trivial = the history "
                       "contains a request")
    ctx.cov["trusted_base"] = ["harness/netpeer.py (raw recording peer)", "http.client of the standard library", "TLC"]
    ctx.assumptions += ["a dictionary that itself spells one name in two letter cases may contribute either of its values"]
    hs = casejudge.enumerate_cases(ctx, "MC_Headers", "MC_Headers_3.cfg", workers=8)
    rnd = random.Random(ctx.seed)
    rnd.shuffle(hs)
    if quick:
        hs = hs[:2400]
    else:
        ctx.cov["exhaustive"] = True
        r4 = ctx.model("MC_Headers", "MC_Headers_4.cfg", workers=16, timeout=1500, heap="8g")
        more = []
        for line in r4.out.splitlines():
            if line.startswith('"{') and rnd.random() < 0.02:
                try:
                    more.append(json.loads(json.loads(line)))
                except ValueError:
                    pass
        hs += more
    # longer histories than the exhaustive bound: the same innermost block under two different outer blocks (a cached
    # merge must not survive the change of a dictionary below the top), and random walks of 6-12 events
    ids = ["e", "a1", "A2", "a3", "b1", "ab", "cl", "ct", "ua", "UA", "ho", "HO", "t1"]
    twins = [{"h": [rnd.choice(ids), ["enter", x], ["enter", h], [rnd.choice(["call", "notify", "batch"])], ["exitN"], [rnd.choice(["exitN", "exitE"])],
                    ["enter", y], ["enter", h], [rnd.choice(["call", "notify", "batch"])], ["exitN"], ["exitN"], ["call"]]}
             for x in ids for y in ids for h in ids if x != y]
    rnd.shuffle(twins)
    walks = []
    for _ in range(150 if quick else 3000):
        depth, w = 0, [rnd.choice(ids)]
        for _k in range(rnd.randint(6, 12)):
            op = rnd.choice(["enter", "enter", "exit", "req", "req", "close"])
            if op == "enter" and depth < 3:
                w.append(["enter", rnd.choice(ids)])
                depth += 1
            elif op == "exit" and depth > 0:
                w.append([rnd.choice(["exitN", "exitE"])])
                depth -= 1
            elif op == "close":
                w.append(["close"])
            else:
                w.append([rnd.choice(["call", "notify", "batch"])])
        walks.append({"h": w})
    hs += twins[:150 if quick else len(twins)] + walks
    rnd.shuffle(hs)                # (every kind of history on every transport / part)
    nparts = 8
    parts = list(common.chunks(hs, (len(hs) + nparts - 1) // nparts))
    cmds, files = [], []
    for j, part in enumerate(parts):
        hf, of = ctx.path("hist%d.json" % j), ctx.path("htr%d.json" % j)
        json.dump(part, open(hf, "w"))
        cmds.append(([PY, RUN, "run", hf, of, str(ctx.seed * 16 + j), "unix" if j % 4 == 3 else "tcp", ctx.dir], pyenv()))
        files.append(of)
    run_parallel(cmds, 2400)
    with ThreadPoolExecutor(max_workers=8) as ex:
        res = list(ex.map(lambda f: common.tlc("MC_HeadersTrace", "MC_HeadersTrace.cfg", env={"TRACE_FILE": f}, workers=1, timeout=1500,
                                               metadir=f + ".m"), files))
    for f, r in zip(files, res):
        if r.errors or not r.finished:
            raise MachineryError("header trace validation failed on %s:\n%s" % (f, "\n".join(r.errors) + r.out[-1500:]))
        traces = json.load(open(f))
        ctx.cov["transitions"] += r.generated
        ctx.cov["trace_states"] = ctx.cov.get("trace_states", 0) + r.distinct
        fails = {}
        for m in re.finditer(r'<<"PROPFAIL", (\d+), "(\w+)", (\d+)>>', r.out):
            fails.setdefault(int(m.group(1)), {}).setdefault(m.group(2), int(m.group(3)))
        for i, t in enumerate(traces, 1):
            ctx.cov["evaluations"] += 1
            hist = [t["init"]] + [[e["k"], e["d"]] if e["k"] == "enter" else [e["k"]] for e in t["ev"]]
            if any(e["k"] in ("call", "notify", "batch") for e in t["ev"]):
                ctx._distinct.add(json.dumps(hist))
            for name, l in sorted(fails.get(i, {}).items()):
                e = t["ev"][l - 1]
                names = sorted(set(t["low"][n] for did in [t["init"]] + [x["d"] for x in t["ev"] if x["k"] == "enter"] for n, _v in t["dicts"][did]))
                sig = "%s:%s:%s" % (name, e["k"], "+".join(names))
                ctx.violation(sig, "%s fails after the history %s: real stack %s, sent %s %s" % (
                    name, json.dumps(hist[:l + 1]), e["stack"], json.dumps({k: v for k, v in e["sent"].items() if k != "-"})[:300], e["err"]),
                    {"kind": "history", "history": hist[:l + 1]})
            if not fails.get(i):
                ctx.cov["traces_validated_against_impl"] += 1
        if traces and len(ctx.cov["samples"]) < 3:
            t = traces[0]
            ctx.sample({"history": [t["init"]] + [[e["k"], e["d"]] for e in t["ev"]], "stack_after": t["ev"][-1]["stack"] if t["ev"] else []})


def replay(ctx, path):
    rp = json.load(open(path))
    hf, of = ctx.path("h.json"), ctx.path("t.json")
    json.dump([{"h": rp["history"]}], open(hf, "w"))
    seen = False
    for cred in ("", "1"):                 # (the history is run without and with credentials in the URL)
        common.run_py(RUN, ["run", hf, of, ctx.seed, "tcp", ctx.dir], env={"VERIF_FORCE_CRED": cred})
        r = common.tlc("MC_HeadersTrace", "MC_HeadersTrace.cfg", env={"TRACE_FILE": of}, workers=1)
        for m in re.finditer(r'<<"PROPFAIL", (\d+), "(\w+)", (\d+)>>', r.out):
            if rp["sig"].startswith(m.group(2) + ":") and not seen:
                seen = True
                ctx.violation(rp["sig"], "replayed: %s fails" % m.group(2), rp)
    ctx.cov["states"] = max(1, r.distinct)
    ctx.cov["transitions"] = max(1, r.generated)
