"""C09, C10, C11: the thread pool.  Model: spec/ThreadPool.tla (TLC exhaustive + liveness);
binding: TLC behaviours replayed into the real pool (MC_TPSim -> harness/pool_rec.py replay), random programs x
random schedules recorded from the real pool; judge: ThreadPoolTrace (stage A, conformance + invariants on the
conformant prefix) and PoolObs (stage B, property predicates on observable events)."""
import json
import os
import re
import subprocess
import time
from concurrent.futures import ThreadPoolExecutor

from harness import common
from harness.common import MachineryError, VERIF, PY

FORMULAS = {
    "C09": {"ExactlyOnce", "NoRunWhileStopped", "Fifo1", "FutureFaithful", "NotStranded"},
    "C10": {"MaxRunning", "MaxServing", "MinServing", "NotStranded", "CtorContract"},
    "C11": {"JoinSound", "WorkersDieAfterStop", "AllDeadAfterStop", "NoDeadlock", "NotStranded", "NoRunWhileStopped"},
}
# which algorithm variant /repo is expected to contain (see ThreadPool.tla header)
FIX = {"FixJoin": "TRUE", "FixGrow": "TRUE", "FixStart": "TRUE"}

REC = os.path.join(VERIF, "harness", "pool_rec.py")


def write_cfg(ctx, name, spec, consts, invariants=(), properties=(), extra=""):
    path = os.path.join(common.SPEC, name)
    lines = ["SPECIFICATION " + spec, "CONSTANTS"]
    lines += ["  %s" % c for c in consts]
    lines += ["INVARIANT " + i for i in invariants]
    lines += ["PROPERTY " + p for p in properties]
    lines += ["CHECK_DEADLOCK FALSE", extra]
    with open(path, "w") as f:
        f.write("\n".join(lines) + "\n")
    return name


def consts(nc, tasks, gated, ops, nw=4, fix=None, clear=False):
    fx = fix or FIX
    return ["NW = %d" % nw, "NC = %d" % nc, "Tasks <- %s" % tasks, "MCGated <- %s" % gated, "MaxOps <- %s" % ops,
            "WithClear = %s" % ("TRUE" if clear else "FALSE"),
            "FixJoin = %s" % fx["FixJoin"], "FixGrow = %s" % fx["FixGrow"], "FixStart = %s" % fx.get("FixStart", "TRUE")]


SAFETY = ["ExactlyOnce", "MaxRunning", "MaxServing", "MinServing", "WorkersDieAfterStop", "CountersSane", "JoinSound",
          "NotStranded"]


def expected():
    return tuple(n for n, f in (("JoinSound", "FixJoin"), ("NotStranded", "FixGrow"), ("<temporal>", "FixGrow")) if FIX[f] == "FALSE")


def model_runs(ctx):
    """Exhaustive runs of the design model.  They do not depend on /repo; conformance (below) is what transfers
    their result to the code."""
    tag = "%s_%d" % (ctx.prop, os.getpid())
    if ctx.tier == "quick":
        cfg = write_cfg(ctx, "gen_TP_%s.cfg" % tag, "Spec2", consts(1, "T2", "G1", "Ops1_5"), SAFETY, ["NoRunWhileStopped"])
        r = ctx.model("MC_TP", cfg, workers=16, timeout=900, extra=["-coverage", "1"], expect_violated=expected())
        zero = set(r.coverage_zero_actions()) - {"P8", "SpawnRefused", "E1w", "E1x", "S4w"}
        if zero:
            raise MachineryError("vacuity: actions never taken in the exhaustive run: %s" % sorted(zero))
        # bounded task queue (queue_size 1..2): enqueue blocks inside the critical section or raises Full
        cfgq = write_cfg(ctx, "gen_TPq_%s.cfg" % tag, "SpecCap", consts(1, "T2", "G1", "Ops1_4"), SAFETY, ["NoRunWhileStopped"])
        ctx.model("MC_TP", cfgq, workers=16, timeout=900)
        os.remove(os.path.join(common.SPEC, cfgq))
        # clear() among the operations (smaller budget)
        cfgk = write_cfg(ctx, "gen_TPk_%s.cfg" % tag, "Spec2", consts(1, "T2", "G1", "Ops1_4", clear=True), SAFETY, ["NoRunWhileStopped"])
        ctx.model("MC_TP", cfgk, workers=16, timeout=900)
        os.remove(os.path.join(common.SPEC, cfgk))
    else:
        cfg = write_cfg(ctx, "gen_TP_%s.cfg" % tag, "Spec2", consts(1, "T3", "G2", "Ops1_6"), SAFETY, ["NoRunWhileStopped"])
        r = ctx.model("MC_TP", cfg, workers=16, timeout=3000, heap="12g", extra=["-coverage", "1"], expect_violated=expected())
        zero = set(r.coverage_zero_actions()) - {"P8", "SpawnRefused", "E1w", "E1x", "S4w"}
        if zero:
            raise MachineryError("vacuity: actions never taken in the exhaustive run: %s" % sorted(zero))
        # two clients: concurrent enqueue / join against start / stop
        cfgb = write_cfg(ctx, "gen_TPb_%s.cfg" % tag, "Spec2", consts(2, "T2", "G1", "Ops2_32"), SAFETY, ["NoRunWhileStopped"])
        ctx.model("MC_TP", cfgb, workers=16, timeout=3000, heap="12g")
        os.remove(os.path.join(common.SPEC, cfgb))
        # clear() on a pool in any state among the operations
        cfgk = write_cfg(ctx, "gen_TPk_%s.cfg" % tag, "Spec2", consts(1, "T2", "G1", "Ops1_6", clear=True), SAFETY, ["NoRunWhileStopped"])
        ctx.model("MC_TP", cfgk, workers=16, timeout=3000, heap="12g")
        os.remove(os.path.join(common.SPEC, cfgk))
        # bounded task queue
        cfgq = write_cfg(ctx, "gen_TPq_%s.cfg" % tag, "SpecCap", consts(1, "T3", "G2", "Ops1_5"), SAFETY, ["NoRunWhileStopped"])
        rq = ctx.model("MC_TP", cfgq, workers=16, timeout=3000, heap="12g", extra=["-coverage", "1"])
        if set(rq.coverage_zero_actions()) - {"P8", "SpawnRefused", "S4w"}:
            raise MachineryError("vacuity (bounded queue): %s" % rq.coverage_zero_actions())
        os.remove(os.path.join(common.SPEC, cfgq))
        # pool sizes up to 3
        cfgc = write_cfg(ctx, "gen_TPc_%s.cfg" % tag, "Spec3", consts(1, "T2", "G1", "Ops1_5", nw=5), SAFETY, ["NoRunWhileStopped"])
        ctx.model("MC_TP", cfgc, workers=16, timeout=3000, heap="12g")
        os.remove(os.path.join(common.SPEC, cfgc))
        for prop, spec in (("Progress", "LiveSpec2"), ("StopReturns", "LiveSpecStop")):
            cfg2 = write_cfg(ctx, "gen_TPl_%s.cfg" % tag, spec, consts(1, "T2", "G1", "Ops1_5"), [], [prop])
            ctx.model("MC_TP", cfg2, workers=16, timeout=3000, heap="12g")
            os.remove(os.path.join(common.SPEC, cfg2))
    os.remove(os.path.join(common.SPEC, cfg))
    # start() racing a second client's enqueue() with max_threads = 3 and three gate-blocked tasks: too large for an
    # exhaustive run, explored by TLC's simulation mode (the original, unlocked counter update strands a task here)
    n = 4000 if ctx.tier == "quick" else 100000          # behaviours per TLC worker
    ctx.model("MC_TP", "MC_TP_startrace_fixed.cfg", workers=16, timeout=3000, heap="8g", extra=["-simulate", "num=%d" % n, "-depth", "70", "-seed", str(ctx.seed + 3)])
    if ctx.tier != "quick":
        ctx.model("MC_TP", "MC_TP_startrace_orig.cfg", workers=16, timeout=3000, heap="8g", extra=["-simulate", "num=%d" % n, "-depth", "70", "-seed", "7"],
                  expect_violated=("NotStranded",))


def sim_behaviours(ctx, num, depth, seed, nc=1, tasks="T3", gated="G2", ops="Ops1_7", spec="SimSpec", tag="a", clear=True):
    """TLC -simulate behaviours of the model as JSON (history variable)."""
    name = "gen_TPSim_%s_%d_%s.cfg" % (ctx.prop, os.getpid(), tag)
    write_cfg(ctx, name, spec, consts(nc, tasks, gated, ops, nw=5 if spec == "SimSpec3" else 4, clear=clear) + ["Depth = %d" % depth], ["Dump"])
    r = common.tlc("MC_TPSim", name, workers=1, timeout=900, extra=["-simulate", "num=%d" % num, "-depth", str(depth), "-seed", str(seed + 1)])
    os.remove(os.path.join(common.SPEC, name))
    behs, seen = [], set()
    for line in r.out.splitlines():
        if line.startswith('"{'):
            try:
                s = json.loads(line)
            except ValueError:
                continue
            if s in seen:
                continue
            seen.add(s)
            behs.append(json.loads(s))
    if not behs:
        raise MachineryError("simulation produced no behaviour:\n" + r.out[-2000:])
    ctx.cov["transitions"] += sum(len(b["steps"]) for b in behs)
    return behs


def run_parallel(cmds, timeout):
    procs = []
    for cmd, env in cmds:
        e = dict(os.environ)
        e.update(env)
        procs.append(subprocess.Popen(["timeout", str(timeout)] + cmd, env=e, cwd=VERIF, stdout=subprocess.PIPE,
                                      stderr=subprocess.PIPE, universal_newlines=True))
    outs = []
    for p, (cmd, _) in zip(procs, cmds):
        o, err = p.communicate()
        if p.returncode != 0:
            raise MachineryError("harness failed rc=%s: %s\n%s\n%s" % (p.returncode, " ".join(cmd), o[-1500:], err[-3000:]))
        outs.append(o)
    return outs


def pyenv():
    return {"PYTHONPATH": common.REPO + os.pathsep + VERIF, "PYTHONHASHSEED": "0", common.GUARD: "1", "PYTHONDONTWRITEBYTECODE": "1"}


def judge(ctx, files):
    """Stage A + stage B on every trace file, in parallel TLC processes.  Returns list of
    (file, index, trace, matched, total, failures{name: first l}, stage)."""
    def stage_a(f):
        return common.tlc("MC_TPTrace", "MC_TPTrace.cfg", env={"TRACE_FILE": f}, workers=1, timeout=1500, dfs=False,
                          metadir=f + ".metaA")

    def stage_b(f):
        return common.tlc("PoolObs", "PoolObs.cfg", env={"TRACE_FILE": f}, workers=1, timeout=1500, metadir=f + ".metaB")
    with ThreadPoolExecutor(max_workers=16) as ex:
        ra = list(ex.map(stage_a, files))
        rb = list(ex.map(stage_b, files))
    results = []
    for f, a, b in zip(files, ra, rb):
        traces = json.load(open(f))
        if a.errors or not a.finished or b.errors or not b.finished:
            raise MachineryError("trace validation did not complete on %s:\n%s\n%s" % (f, "\n".join(a.errors), "\n".join(b.errors) + b.out[-1500:]))
        matched = {}
        for m in re.finditer(r'<<"VERDICT", (\d+), (\d+), (\d+)>>', a.out):
            matched[int(m.group(1))] = (int(m.group(2)), int(m.group(3)))
        if len(matched) != len(traces):
            raise MachineryError("stage A gave %d verdicts for %d traces on %s" % (len(matched), len(traces), f))
        fa, fb = {}, {}
        for out, dst in ((a.out, fa), (b.out, fb)):
            for m in re.finditer(r'<<"PROPFAIL", (\d+), "(\w+)", (\d+)>>', out):
                d = dst.setdefault(int(m.group(1)), {})
                name, l = m.group(2), int(m.group(3))
                d[name] = min(l, d.get(name, l))
        for i, t in enumerate(traces, 1):
            results.append({"file": f, "i": i, "trace": t, "matched": matched[i][0], "total": matched[i][1],
                            "failA": fa.get(i, {}), "failB": fb.get(i, {})})
        ctx.cov["transitions"] += a.generated + b.generated
        ctx.cov.setdefault("trace_states", 0)
        ctx.cov["trace_states"] += a.distinct + b.distinct
    return results


def qualifier(name, tr, l):
    """Signature detail of a violation, so that a different violation of the same formula is not mistaken
    for a listed finding."""
    ev = tr["ev"]
    e = ev[min(l, len(ev)) - 1] if ev else None
    if name == "JoinSound" and e is not None:
        real = [x for x in e["st"]["q"] if x != 0]
        unfinished = [t for t in e["snap"] if e["st"]["ts"][t - 1] not in ("finished", "done", "dropped")]
        st = sorted(set(e["st"]["ts"][t - 1] for t in unfinished))
        return "%s:queue-%s:%s" % (e["op"][0], "nonempty" if real else "empty", "+".join(st))
    if name == "NotStranded" and e is not None:
        return "alive=%d<max" % len(e["st"]["alive"]) if len(e["st"]["alive"]) < tr["cfg"]["maxT"] else "alive>=max"
    if name == "NoDeadlock":
        return "+".join(sorted(set(tr.get("blockedop", []))))
    return ""


def summarise(tr, upto=None):
    ev = tr["ev"] if upto is None else tr["ev"][:upto]
    return {"cfg": tr["cfg"], "kind": tr["kind"], "seed": tr.get("seed"), "end": tr["end"],
            "events": ["%s:%s%s" % (e["thr"], e["k"], ("(" + ",".join(map(str, e["op"])) + ")") if e["op"] else "") for e in ev][:400]}


def run(ctx):
    t0 = time.time()
    mine = FORMULAS[ctx.prop]
    ctx.cov["rule"] = ("one case = one recorded execution of the real ThreadPool (a client program x a schedule, under the "
                       "controlled scheduler); distinct = distinct event-kind sequences; non-trivial = at least one task was enqueued")
    ctx.cov["trusted_base"] = ["harness/detsched.py shims of threading/queue (atomic queue operations, time-outs as scheduler choices)",
                               "projection in harness/pool_rec.py", "TLC"]
    ctx.assumptions += ["exhaustiveness holds for the model constants listed under model_runs; beyond them: sampling",
                        "plain (unlocked) counter updates are treated as atomic at shim granularity"]
    split = {}
    model_runs(ctx)
    split["model"] = round(time.time() - t0, 1)
    quick = ctx.tier == "quick"
    # ---- generator: TLC behaviours replayed into the real pool
    nsim = 120 if quick else 1500
    behs = sim_behaviours(ctx, nsim, 90 if quick else 110, ctx.seed, tag="a")
    behs += sim_behaviours(ctx, 40 if quick else 600, 90 if quick else 110, ctx.seed + 41, tasks="T3", gated="G2", ops="Ops1_7", spec="SimSpecCap", tag="q")
    if not quick:
        behs += sim_behaviours(ctx, 600, 110, ctx.seed + 17, nc=2, tasks="T3", gated="G2", ops="Ops2_52", tag="b")
        behs += sim_behaviours(ctx, 600, 110, ctx.seed + 29, tasks="T3", gated="G2", ops="Ops1_7", spec="SimSpec3", tag="c")
    nproc = 8 if quick else 16
    cmds, files = [], []
    per = (len(behs) + nproc - 1) // nproc
    for j, chunk in enumerate(common.chunks(behs, per)):
        bf, of = ctx.path("beh%d.json" % j), ctx.path("replay%d.json" % j)
        json.dump(chunk, open(bf, "w"))
        cmds.append(([PY, REC, "replay", bf, of], pyenv()))
        files.append(of)
    # ---- random programs x random schedules on the real pool
    nrand = 100 if quick else 1500
    for j in range(nproc):
        of = ctx.path("random%d.json" % j)
        maxmax, nt, nc = [(2, 3, 1), (3, 4, 1), (2, 3, 2), (3, 5, 2)][j % 4]
        cmds.append(([PY, REC, "random", str(nrand), str(ctx.seed * 64 + j), of, str(maxmax), str(nt), str(nc)], pyenv()))
        files.append(of)
    t1 = time.time()
    split["sim"] = round(t1 - t0 - split["model"], 1)
    # ---- systematic: every schedule with at most one preemption of small two-client programs around start/stop/restart
    for j in range(8):
        of = ctx.path("explore%d.json" % j)
        cmds.append(([PY, REC, "explore", str(j), "8", "100" if quick else "400", str(ctx.seed * 8 + j), of], pyenv()))
        files.append(of)
    run_parallel(cmds, 2400)
    split["record"] = round(time.time() - t1, 1)
    t1 = time.time()
    alltr = []
    for f in files:
        alltr += json.load(open(f))
        os.remove(f)
    alltr.sort(key=lambda t: len(t["ev"]))
    k = 8 if quick else 16
    files = []
    for j in range(k):
        part = alltr[j::k]
        if part:
            files.append(ctx.path("traces%d.json" % j))
            json.dump(part, open(files[-1], "w"))
    results = judge(ctx, files)
    split["judge"] = round(time.time() - t1, 1)
    # ---- model-guided search (DESIGN 4.6): executions that stopped conforming to the model are re-run and extended
    # with further random operations; the extensions are judged like every other trace
    drifting = [r["trace"] for r in results if r["matched"] != r["total"] and r["trace"]["kind"] == "random"]
    if drifting:
        t1 = time.time()
        jobs = []
        for tr in drifting[:16]:
            for x in range(48 if quick else 128):
                jobs.append([tr["seed"]] + tr["params"] + [6, x + 1])
        cmds, files2 = [], []
        for j, chunk in enumerate(common.chunks(jobs, (len(jobs) + 15) // 16)):
            jf, of = ctx.path("ext%d.in.json" % j), ctx.path("ext%d.json" % j)
            json.dump(chunk, open(jf, "w"))
            cmds.append(([PY, REC, "extend", jf, of], pyenv()))
            files2.append(of)
        run_parallel(cmds, 1500)
        results += judge(ctx, files2)
        split["focused"] = round(time.time() - t1, 1)
        ctx.cov["focused_search"] = {"drifting_traces": len(drifting), "extensions": len(jobs)}
    # ---- verdicts
    conform = {"replayed_behaviours": 0, "replay_conformant": 0, "recorded_traces": 0, "stageA_accepted": 0}
    accepted = 0
    for r in results:
        tr = r["trace"]
        key = "|".join("%s:%s" % (e["thr"], e["k"]) for e in tr["ev"])
        nontrivial = any(e["k"] == "qput" and e["fn"] == "enqueue" for e in tr["ev"])
        ctx.cov["evaluations"] += 1
        if nontrivial:
            ctx._distinct.add(key)
        conform["recorded_traces"] += 1
        okA = r["matched"] == r["total"]
        if tr["kind"] == "replay":
            conform["replayed_behaviours"] += 1
            if not tr.get("diverged"):
                conform["replay_conformant"] += 1
            else:
                ctx.note_drift("replay of a TLC behaviour diverged: %s" % tr["diverged"])
        if okA:
            conform["stageA_accepted"] += 1
        else:
            ctx.note_drift("trace (%s seed=%s) is not a behaviour of ThreadPool.tla: matched %d of %d events, next event %s" % (
                tr["kind"], tr.get("seed"), r["matched"], r["total"],
                json.dumps({k: tr["ev"][r["matched"]][k] for k in ("thr", "k", "fn")}) if r["matched"] < len(tr["ev"]) else "-"))
        fails = dict(r["failB"])
        for name, l in r["failA"].items():       # invariants on the conformant prefix: the spec state is the code state
            if name in FORMULAS["C09"] | FORMULAS["C10"] | FORMULAS["C11"]:
                fails.setdefault(name, l)
        bad = {n: l for n, l in fails.items() if n in mine}
        if not bad and okA:
            accepted += 1
        for name, l in sorted(bad.items()):
            sig = "%s%s" % (name, (":" + qualifier(name, tr, l)) if qualifier(name, tr, l) else "")
            replay = {"kind": tr["kind"], "trace_seed": tr.get("seed"), "cfg": tr["cfg"], "formula": name, "at_event": l,
                      "summary": summarise(tr, l + 3)}
            if tr["kind"] == "planned":
                replay.update({"progs": tr["progs"], "plan": tr["plan"], "policy": tr["policy"]})
            if tr["kind"] in ("random", "extended"):
                replay["ext"] = tr.get("ext", [0, 0])
                replay["params"] = {"maxmax": tr["params"][0], "nt": tr["params"][1], "nc": tr["params"][2]}
            ctx.violation(sig, "%s is false at event %d of a recorded execution of the real pool (%s)" % (name, l, tr["kind"]), replay)
        if len(ctx.cov["samples"]) < 3 and nontrivial:
            ctx.sample(summarise(tr, 60))
    ctx.cov["traces_validated_against_impl"] = accepted
    ctx.cov["conformance"] = conform
    ctor_contract(ctx)
    pool_pair(ctx)
    if ctx.prop == "C09":
        # "its FutureResult then reports done and yields the very object / raises the very exception": judged at the
        # granularity of single field operations by the Future machinery (shared with C16)
        from checks import c16_future
        c16_future.record_and_judge(ctx, {"ResultFaithful", "NotDoneBeforeFinish", "ResultOnlyAfterFinish", "ConsistentAfter"},
                                    quick, with_replay=True)
    split["total"] = round(time.time() - t0, 1)
    ctx.cov["wall_split"] = split
    print("wall split:", split)


PAIR = {"C09": {"OwnServesPair", "OtherServesPair"}, "C10": {"OwnServesPair", "OtherServesPair"},
        "C11": {"CallsReturnPair", "WorkersTerminatePair", "StoppedStaysStopped", "OtherServesPair"}}


def pool_pair(ctx):
    """Two pools alive in one process (independent instances of ThreadPool.tla): PoolPairJudge.tla judges what the callers
    saw in random start / enqueue / join / stop histories over the pair."""
    from harness import casejudge
    of = ctx.path("pair.json")
    common.run_py(os.path.join(VERIF, "harness", "poolpair_run.py"), [of, ctx.seed, 60 if ctx.tier == "quick" else 1500])
    recs = json.load(open(of))
    fails, _ = casejudge.judge(ctx, "PoolPairJudge", of, "PoolPairJudge.cfg")
    for i, r in enumerate(recs, 1):
        ctx.cov["evaluations"] += 1
        ctx._distinct.add("pair:%s" % r["seed"])
        for name in sorted(fails.get(i, set()) & PAIR[ctx.prop]):
            bad = [o for o in r["ops"] if o["ret"] != "returned" or o.get("own_alive_after", 0) != 0
                   or o["serves"] not in ("ok", "na") or o["other_serves"] not in ("ok", "na") or o["other_alive_stopped"]]
            ctx.violation("%s:two-pools" % name, "%s is false for a history over two pools of one process (sizes %s): step %s" % (
                name, r["sizes"], json.dumps(bad[0]) if bad else "-"), {"kind": "pair", "case": r})
    ctx.cov["pair_histories"] = len(recs)


def ctor_contract(ctx):
    """C10: constructor arguments are rejected or clamped as documented (PoolCtor.tla judges)."""
    if ctx.prop != "C10":
        return
    out = common.run_py(os.path.join(VERIF, "harness", "pool_ctor.py"), [ctx.path("ctor.json"), ctx.seed, 40 if ctx.tier == "quick" else 400])
    r = common.tlc("PoolCtor", "PoolCtor.cfg", env={"CASES_FILE": ctx.path("ctor.json")}, workers=1, timeout=300)
    if r.errors or not r.finished:
        raise MachineryError("PoolCtor judge failed:\n" + r.out[-2000:])
    ctx.cov["states"] += r.distinct
    ctx.cov["transitions"] += r.generated
    cases = json.load(open(ctx.path("ctor.json")))
    bad = set(int(m.group(1)) for m in re.finditer(r'<<"PROPFAIL", (\d+), "CtorContract"', r.out))
    for i, c in enumerate(cases, 1):
        ctx.count("ctor:" + c["cls"])
        if i in bad:
            ctx.violation("CtorContract:" + c["cls"], "ThreadPool(%s, %s) -> %s" % (c["maxr"], c["minr"], c["out"]),
                          {"kind": "ctor", "case": c})
    ctx.cov["ctor_cases"] = len(cases)
    ctx.sample({"ctor_case": cases[0]})


def replay(ctx, path):
    rp = json.load(open(path))
    if rp.get("kind") in ("random", "extended"):
        p = rp["params"]
        ext = rp.get("ext", [0, 0])
        of = ctx.path("r.json")
        # regenerate exactly that execution: pool_rec seeds are seed*100003+i ; run a single trace with the stored seed
        code = ("import json,sys; sys.argv=['x']; from harness import pool_rec; "
                "t=pool_rec.random_trace(%d,%d,%d,%d,True,%d,%d); json.dump([t],open(%r,'w'))" % (rp["trace_seed"], p["maxmax"], p["nt"], p["nc"], ext[0], ext[1], of))
        subprocess.check_call([PY, "-c", code], env=dict(os.environ, **pyenv()), cwd=VERIF)
        results = judge(ctx, [of])
        for r in results:
            fails = dict(r["failB"])
            fails.update({k: v for k, v in r["failA"].items() if k not in fails})
            for name, l in fails.items():
                if name == rp["formula"]:
                    ctx.violation(rp["sig"], "replayed: %s false at event %d" % (name, l), rp)
        ctx.cov["states"] = max(1, ctx.cov.get("trace_states", 1))
        ctx.cov["transitions"] = max(1, ctx.cov["transitions"])
    else:
        raise MachineryError("replay of kind %r is re-derived by running the check itself" % rp.get("kind"))
