"""C16: future completion protocol.  Model: spec/Future.tla (PlusCal, one label per shared-memory operation), TLC
exhaustive incl. termination; binding: TLC behaviours replayed into the real FutureResult under the controlled
scheduler with field-level yield points, random schedules recorded; judge: FutureTrace (conformance, 1 event = 1 step)
and FutureObs (property predicates on observable events)."""
import json
import os
import re
import time
from concurrent.futures import ThreadPoolExecutor

from harness import common
from harness.common import MachineryError, VERIF, PY
from checks.pool import run_parallel, pyenv

REC = os.path.join(VERIF, "harness", "future_rec.py")
SAFETY = ["NotDoneBeforeFinish", "ResultOnlyAfterFinish", "ResultFaithful", "ConsistentAfter", "AtMostOncePerRegistration",
          "ArgsRight", "ExactlyOnceAtEnd", "NoEarlyCallback", "ExecutorCompletes"]
ALL = {"NotDoneBeforeFinish", "ResultOnlyAfterFinish", "ResultFaithful", "ConsistentAfter", "AtMostOncePerRegistration",
       "ArgsRight", "ExactlyOnceAtEnd", "NoEarlyCallback", "OutcomeStable", "Contained"}


def cfg(name, spec, regs, nobs, invariants, props, extra=()):
    path = os.path.join(common.SPEC, name)
    with open(path, "w") as f:
        f.write("SPECIFICATION %s\nCONSTANTS\n  Regs <- %s\n  NObs = %d\n  defaultInitValue = 0\n" % (spec, regs, nobs))
        for e in extra:
            f.write("  %s\n" % e)
        for i in invariants:
            f.write("INVARIANT %s\n" % i)
        for p in props:
            f.write("PROPERTY %s\n" % p)
        f.write("CHECK_DEADLOCK FALSE\n")
    return name


def model_runs(ctx):
    tag = "%s_%d" % (ctx.prop, os.getpid())
    runs = [("R1", 3, True), ("R2", 2, False)] if ctx.tier == "quick" else [("R1", 4, True), ("R2", 3, True), ("R3", 2, False)]
    for regs, nobs, live in runs:
        name = cfg("gen_Fut_%s.cfg" % tag, "Spec", regs, nobs, SAFETY, ["OutcomeStable"] + (["Termination"] if live else []))
        r = ctx.model("MC_Future", name, workers=16, timeout=3000, heap="8g", extra=["-coverage", "1"])
        zero = r.coverage_zero_actions()
        if zero:
            raise MachineryError("vacuity: actions never taken: %s" % zero)
        os.remove(os.path.join(common.SPEC, name))


def sim(ctx, num, regs, nobs, depth, seed):
    name = cfg("gen_FutSim_%s_%d.cfg" % (ctx.prop, os.getpid()), "SimSpec", regs, nobs, ["Dump"], [], extra=["Depth = %d" % depth])
    r = common.tlc("MC_FutureSim", name, workers=1, timeout=900, extra=["-simulate", "num=%d" % num, "-depth", str(depth), "-seed", str(seed + 1)])
    os.remove(os.path.join(common.SPEC, name))
    behs, seen = [], set()
    for line in r.out.splitlines():
        if line.startswith('"{'):
            try:
                s = json.loads(line)
            except ValueError:
                continue
            if s in seen:
                continue
            seen.add(s)
            b = json.loads(s)
            b["obs"] = observer_program(b)
            behs.append(b)
    if not behs:
        raise MachineryError("simulation produced no behaviour:\n" + r.out[-1500:])
    ctx.cov["transitions"] += sum(len(b["steps"]) for b in behs)
    return behs


def observer_program(b):
    """Observation kinds in order.  The observer's steps are o1 [o2 o3] o4 per observation; `kind` after the o1 step
    is the kind of that observation, and o4 closes it."""
    kinds, i = [], 0
    osteps = [st for st in b["steps"] if st["who"] == 200]
    while i < len(osteps):
        k = osteps[i]["kind"]
        kinds.append(k)
        if k == "done":
            i += 2
        else:
            # result: if the event was set at the o1 step there are o2, o3 before o4
            i += 4 if osteps[i]["st"]["eset"] else 2
    return kinds


def judge(ctx, files):
    def stage_a(f):
        return common.tlc("MC_FutureTrace", "MC_FutureTrace.cfg", env={"TRACE_FILE": f}, workers=1, timeout=900, metadir=f + ".mA")

    def stage_b(f):
        return common.tlc("FutureObs", "FutureObs.cfg", env={"TRACE_FILE": f}, workers=1, timeout=900, metadir=f + ".mB")
    with ThreadPoolExecutor(max_workers=16) as ex:
        ra = list(ex.map(stage_a, files))
        rb = list(ex.map(stage_b, files))
    results = []
    for f, a, b in zip(files, ra, rb):
        traces = json.load(open(f))
        if a.errors or not a.finished or b.errors or not b.finished:
            raise MachineryError("trace validation did not complete on %s:\n%s\n%s" % (f, "\n".join(a.errors + b.errors), (a.out + b.out)[-1500:]))
        matched = {int(m.group(1)): (int(m.group(2)), int(m.group(3))) for m in re.finditer(r'<<"VERDICT", (\d+), (\d+), (\d+)>>', a.out)}
        if len(matched) != len(traces):
            raise MachineryError("stage A gave %d verdicts for %d traces" % (len(matched), len(traces)))
        fb = {}
        for m in re.finditer(r'<<"PROPFAIL", (\d+), "(\w+)", (\d+)>>', b.out):
            d = fb.setdefault(int(m.group(1)), {})
            d[m.group(2)] = min(int(m.group(3)), d.get(m.group(2), 10 ** 9))
        for i, t in enumerate(traces, 1):
            results.append({"trace": t, "matched": matched[i][0], "total": matched[i][1], "failB": fb.get(i, {})})
        ctx.cov["transitions"] += a.generated + b.generated
        ctx.cov["trace_states"] = ctx.cov.get("trace_states", 0) + a.distinct + b.distinct
    return results


def summarise(tr, upto=None):
    ev = tr["ev"] if upto is None else tr["ev"][:upto]
    return {"cfg": tr["cfg"], "kind": tr["kind"], "seed": tr.get("seed"), "obs": tr.get("obs"),
            "events": ["%s:%s%s" % (e["thr"], e["k"], ("=" + str(e["v"])) if e["v"] != "" else "") for e in ev][:200]}


def record_and_judge(ctx, formulas, quick, with_replay=True):
    cmds, files = [], []
    nproc = 8 if quick else 16
    if with_replay:
        behs = sim(ctx, 150 if quick else 1500, "R2", 3, 48, ctx.seed)
        if not quick:
            behs += sim(ctx, 800, "R3", 2, 60, ctx.seed + 5)
        per = (len(behs) + nproc - 1) // nproc
        for j, chunk in enumerate(common.chunks(behs, per)):
            bf, of = ctx.path("fbeh%d.json" % j), ctx.path("freplay%d.json" % j)
            json.dump(chunk, open(bf, "w"))
            cmds.append(([PY, REC, "replay", bf, of], pyenv()))
            files.append(of)
    nrand = 150 if quick else 2500
    for j in range(nproc):
        of = ctx.path("frandom%d.json" % j)
        cmds.append(([PY, REC, "random", str(nrand), str(ctx.seed * 64 + j), of], pyenv()))
        files.append(of)
    run_parallel(cmds, 1500)
    results = judge(ctx, files)
    conform = {"replayed_behaviours": 0, "replay_conformant": 0, "recorded_traces": 0, "stageA_accepted": 0}
    accepted = 0
    for r in results:
        tr = r["trace"]
        key = "|".join("%s:%s" % (e["thr"], e["k"]) for e in tr["ev"])
        ctx.cov["evaluations"] += 1
        if tr["cfg"]["nreg"] >= 1:
            ctx._distinct.add(key)
        conform["recorded_traces"] += 1
        okA = r["matched"] == r["total"]
        if tr["kind"] == "replay":
            conform["replayed_behaviours"] += 1
            if not tr.get("diverged"):
                conform["replay_conformant"] += 1
            else:
                ctx.note_drift("replay of a TLC behaviour of Future.tla diverged: %s" % tr["diverged"])
        if okA:
            conform["stageA_accepted"] += 1
        else:
            nxt = tr["ev"][r["matched"]] if r["matched"] < len(tr["ev"]) else None
            ctx.note_drift("trace (%s seed=%s) is not a behaviour of Future.tla: matched %d of %d events, next event %s" % (
                tr["kind"], tr.get("seed"), r["matched"], r["total"], json.dumps({k: nxt[k] for k in ("thr", "k", "v")}) if nxt else "-"))
        bad = {n: l for n, l in r["failB"].items() if n in formulas}
        if not bad and okA:
            accepted += 1
        for name, l in sorted(bad.items()):
            e = tr["ev"][l - 1]
            qual = ""
            if name in ("AtMostOncePerRegistration", "ExactlyOnceAtEnd"):
                qual = ":n=%d" % max([0] + [sum(1 for x in tr["ev"][:l] if x["k"] == "cb" and x["c"]["cb"] == rr) for rr in range(1, tr["cfg"]["nreg"] + 1)])
            elif name in ("ResultFaithful", "ResultOnlyAfterFinish", "NotDoneBeforeFinish", "ConsistentAfter"):
                qual = ":%s=%s" % (e.get("kind", ""), e["v"])
            sig = name + qual
            ctx.violation(sig, "%s is false at event %d of a recorded execution of the real FutureResult (%s)" % (name, l, tr["kind"]),
                          {"kind": tr["kind"], "trace_seed": tr.get("seed"), "cfg": tr["cfg"], "formula": name, "at_event": l,
                           "summary": summarise(tr, l + 2)})
        if len(ctx.cov["samples"]) < 3 and tr["cfg"]["nreg"] >= 1:
            ctx.sample(summarise(tr, 50))
    ctx.cov["traces_validated_against_impl"] += accepted
    ctx.cov.setdefault("conformance", {})
    ctx.cov["conformance"]["future"] = conform


def run(ctx):
    t0 = time.time()
    ctx.cov["rule"] = ("one case = one recorded execution of the real FutureResult (executor, 1-3 registrations with returning / raising / "
                       "wrong-arity callbacks, an observer issuing done()/result(0)) under one schedule at the granularity of single "
                       "field / Event / lock operations; distinct = distinct event sequences")
    ctx.cov["trusted_base"] = ["harness/detsched.py (Lock/Event shims)", "field interception in harness/future_rec.py", "TLC", "pcal translation"]
    ctx.assumptions += ["a registration superseded before completion may receive zero invocations (lenient reading, DESIGN C16)",
                        "exhaustive for <= 2 registrations x 3 observations (quick: 2 x 2); beyond: sampling"]
    model_runs(ctx)
    record_and_judge(ctx, ALL, ctx.tier == "quick")
    ctx.cov["wall_split"] = {"total": round(time.time() - t0, 1)}


def replay(ctx, path):
    rp = json.load(open(path))
    if rp.get("kind") != "random":
        raise MachineryError("replay-kind traces are re-derived by running the check itself")
    of = ctx.path("r.json")
    import subprocess
    code = ("import json; from harness import future_rec; json.dump([future_rec.random_trace(%d)], open(%r,'w'))" % (rp["trace_seed"], of))
    subprocess.check_call([PY, "-c", code], env=dict(os.environ, **pyenv()), cwd=VERIF)
    for r in judge(ctx, [of]):
        for name, l in r["failB"].items():
            if name == rp["formula"]:
                ctx.violation(rp["sig"], "replayed: %s false at event %d" % (name, l), rp)
    ctx.cov["states"] = max(1, ctx.cov.get("trace_states", 1))
    ctx.cov["transitions"] = max(1, ctx.cov["transitions"])
