"""C06: the client never swallows or mistypes a server-reported error.  Model: spec/ErrorCheck.tla (classification of
the reply shape; 1 776 shapes enumerated by TLC); binding: every shape concretised and fed to the real
check_for_errors, ServerProxy (in-process loopback transport) and MultiCall result access; judge:
ErrorCheckJudge.tla recomputes the classification from the concrete reply and evaluates the predicates."""
import json
import os

from harness import common, casejudge
from harness.common import VERIF


def sig_of(name, r):
    a = r["a"]
    return "%s:error=%s%s" % (name, a["errk"], (",code=" + a["codek"]) if a["errk"] == "objcode" else "")


def client_histories(ctx):
    """After an exchange that went wrong (every fault item of the transport alphabet, incl. a reply cut while it is being
    parsed and an error page larger than the socket buffer), the next healthy exchange on the same proxy reports a
    JSON-RPC error: it must surface as ProtocolError / AppError with its code (ClientHistJudge.tla)."""
    of = ctx.path("clienthist.json")
    common.run_py(os.path.join(VERIF, "harness", "errorcheck_run.py"), ["histories", of, ctx.seed, 56 if ctx.tier == "quick" else 1400])
    recs = json.load(open(of))
    fails, _ = casejudge.judge(ctx, "ClientHistJudge", of, "ClientHistJudge.cfg")
    for i, r in enumerate(recs, 1):
        ctx.cov["evaluations"] += 1
        ctx._distinct.add("hist:%s:%s" % (r["fault"], r["item"]))
        for name in sorted(fails.get(i, ())):
            ctx.violation("%s:%s:%s" % (name, r["fault"], r["want"]),
                          "%s: after a %s exchange the next call was answered with JSON-RPC error %s but the proxy gave %s %s" % (
                              name, r["fault"], r["code"]["a"], r["second"]["kind"], r["second"].get("text", "")),
                          {"kind": "history", "fault": r["fault"], "item": r["item"]})
        if not fails.get(i):
            ctx.cov["traces_validated_against_impl"] += 1


def run(ctx):
    ctx.cov["rule"] = ("one case = one reply shape (error kind x code class x message/trace x data x result kind x envelope) from TLC's "
                       "enumeration, concretised k times and accessed through 4 client paths; distinct = distinct shapes; non-trivial = "
                       "the statement prescribes the outcome (not 'unspecified')")
    ctx.cov["trusted_base"] = ["harness/values.py", "json of the standard library", "TLC"]
    ctx.cov["exhaustive"] = True
    cases = casejudge.enumerate_cases(ctx, "MC_ErrorCheck", "MC_ErrorCheck.cfg")
    k = 2 if ctx.tier == "quick" else 12
    cf, of = ctx.path("cases.json"), ctx.path("recs.json")
    json.dump(cases, open(cf, "w"))
    common.run_py(os.path.join(VERIF, "harness", "errorcheck_run.py"), [cf, of, ctx.seed, k])
    recs = json.load(open(of))
    fails, drifts = casejudge.judge(ctx, "ErrorCheckJudge", of, "ErrorCheckJudge.cfg")
    for i, r in enumerate(recs, 1):
        ctx.cov["evaluations"] += 1
        if r["expect"] != "unspecified":
            ctx._distinct.add(json.dumps(r["a"], sort_keys=True))
        for name in sorted(fails.get(i, ())):
            path = name.split(":")[0]
            o = r[{"check_for_errors": "cfe", "ServerProxy": "proxy", "ServerProxy-notify": "notify", "MultiCall[i]": "mcindex", "MultiCall-iter": "mciter",
                   "MultiCall[i]-again": "mcindex2", "MultiCall-iter-again": "mciter2", "MultiCall[i]-after-iter": "mcidxiter"}[path]]
            ctx.violation(sig_of(name, r), "%s on reply %s -> %s %s" % (name, r["text"][:160], o["kind"], o.get("text", "")),
                          {"kind": "input", "case": {"a": r["a"], "expect": r["expect"]}, "reply_text": r["text"]})
        for name in sorted(drifts.get(i, ())):
            ctx.note_drift("harness concretiser missed its class (%s): %s" % (name, r["text"][:120]))
        if not fails.get(i):
            ctx.cov["traces_validated_against_impl"] += 1
    for r in recs[:3]:
        ctx.sample({"reply": r["text"], "check_for_errors": r["cfe"]["kind"], "proxy": r["proxy"]["kind"]})
    client_histories(ctx)


def replay(ctx, path):
    rp = json.load(open(path))
    json.dump([rp["case"]], open(ctx.path("c.json"), "w"))
    of = ctx.path("r.json")
    common.run_py(os.path.join(VERIF, "harness", "errorcheck_run.py"), [ctx.path("c.json"), of, ctx.seed, 16])
    recs = json.load(open(of))
    fails, _ = casejudge.judge(ctx, "ErrorCheckJudge", of, "ErrorCheckJudge.cfg")
    for i, names in fails.items():
        for n in names:
            if sig_of(n, recs[i - 1]) == rp["sig"]:
                ctx.violation(rp["sig"], "replayed: %s on %s" % (n, recs[i - 1]["text"][:160]), rp)
    ctx.cov["states"] = max(1, ctx.cov.get("judge_states", 1))
    ctx.cov["transitions"] = max(1, ctx.cov["transitions"])
