"""C17: wire framing is exact and body reassembly is independent of chunking.  Model: spec/Framing.tla (bodies as
sequences of characters of UTF-8 width 1-4, the wire as bytes, the read loop as a state machine with every read size;
TLC: every body of <= 4 characters x every chunking with reads <= 4 bytes, termination; the original per-read decoding
is kept as DecodeOnce = FALSE and fails the same invariant).  Binding: every body of the model is concretised and fed
to the real do_POST through a scripted rfile with all / random chunkings, and to the real Transport.parse_response
(identity and gzip); emitted framing is captured at a raw recording peer (client, TCP + Unix), by a raw client socket
(HTTP server) and from the CGI handler's stdout; URL x scheme matrix for targets.  Judge: FramingJudge.tla."""
import json
import os

from harness import common, casejudge
from harness.common import VERIF, PY
from checks.pool import run_parallel, pyenv

RUN = os.path.join(VERIF, "harness", "framing_run.py")


def run(ctx):
    quick = ctx.tier == "quick"
    ctx.cov["rule"] = ("one case = (body, chunking) pushed through the real server read loop or client response parser, or one emitted "
                       "message captured raw, or one URL (scheme x path x query); distinct = distinct (leg, body widths, chunking) / URL")
    ctx.cov["trusted_base"] = ["harness/netpeer.py", "scripted file objects of harness/framing_run.py", "text equality of bodies beyond 16 bytes is computed by the harness", "TLC"]
    bodies = casejudge.enumerate_cases(ctx, "MC_Framing", "MC_Framing.cfg", workers=8)
    ctx.model("Framing", "Framing_TRUE.cfg", workers=8, timeout=900)
    parts = list(common.chunks(bodies, (len(bodies) + 3) // 4))
    cmds, files = [], []
    for j, part in enumerate(parts):
        bf, of = ctx.path("bodies%d.json" % j), ctx.path("fr%d.json" % j)
        json.dump(part, open(bf, "w"))
        cmds.append(([PY, RUN, "run", bf, of, str(ctx.seed * 4 + j), "30" if quick else "600", ctx.dir], pyenv()))
        files.append(of)
    run_parallel(cmds, 2400)
    from concurrent.futures import ThreadPoolExecutor
    with ThreadPoolExecutor(max_workers=4) as ex:
        verdicts = list(ex.map(lambda f: casejudge.judge(ctx, "FramingJudge", f, "FramingJudge.cfg", timeout=2400), files))
    for f, (fails, _) in zip(files, verdicts):
        recs = json.load(open(f))
        for i, r in enumerate(recs, 1):
            ctx.cov["evaluations"] += 1
            if r["leg"] in ("server", "client"):
                key = json.dumps([r["leg"], r["ws"], r["cuts"], r.get("gzip", False)])
            elif r["leg"] == "target":
                key = json.dumps([r["scheme"], r["path"], r["query"]])
            else:
                key = json.dumps([r["who"], r["outlen"], r["cfgtype"]])
            ctx._distinct.add(key)
            for name in sorted(fails.get(i, ())):
                if r["leg"] in ("server", "client"):
                    split = any(c for c in r["cuts"]) and len(r["cuts"]) > 1
                    sig = "%s:%s:%s" % (name, r["leg"] + ("-gzip" if r.get("gzip") else ""), "multibyte-split" if max(r["ws"] or [1]) > 1 or not r["ws"] else "ascii")
                    what = "%s fails on the %s side: body widths %s read as %s -> status %s %s" % (name, r["leg"], r["ws"][:20], r["cuts"][:20], r["status"], r["err"])
                elif r["leg"] == "target":
                    sig = "%s:%s" % (name, r["scheme"])
                    what = "%s fails for %s://host%s?%s -> built=%s exc=%s target=%r wire=%r" % (name, r["scheme"], r["path"], r["query"], r["built"], r["exc"], r["target"], r["wire"])
                else:
                    sig = "%s:%s" % (name, r["who"])
                    what = "%s fails for a message emitted by %s: Content-Length %s vs %s bytes, Content-Type %s vs %s %s" % (name, r["who"], r["clen"], r["outlen"], r["ctype"], r["cfgtype"], r["err"])
                ctx.violation(sig, what, {"kind": "input", "case": {k: v for k, v in r.items() if k not in ("text", "handed")}})
            if not fails.get(i):
                ctx.cov["traces_validated_against_impl"] += 1
        if recs and len(ctx.cov["samples"]) < 4:
            r = recs[len(recs) // 3]
            ctx.sample({k: v for k, v in r.items() if k not in ("text", "handed")})
    # spec growth (not part of C17's verdict): the whole HTTP exchange as a step machine, against real listeners
    from checks import growth
    growth.safely(ctx, growth.run_http_layer)


def replay(ctx, path):
    raise common.MachineryError("C17 replays: re-derive by running the check (deterministic for a given seed); the stored case describes the body widths and chunking")
