#!/bin/bash
# usage: tools_seedmatrix.sh <repo copy> [seeds...] ; for every seeded/<id>/patch.diff: apply to the repo COPY, run the check of
# its property with each seed (VERIF_REPO points the machinery at the copy), restore; prints one line per (seed dir, seed).
R="$1"; shift; SEEDS="${@:-21 22 23}"
cd "$(dirname "$0")"
for d in seeded/*/; do
  id=$(basename $d)
  if [ -n "${SEEDFILTER:-}" ] && ! echo "$id" | grep -Eq "$SEEDFILTER"; then continue; fi
  prop=$(python3 -c "import json;print(json.load(open('$d/meta.json')).get('property'))" 2>/dev/null)
  [ -z "$prop" -o "$prop" = "None" ] && continue
  ( cd $R && git checkout -q -- . && (git apply --3way $OLDPWD/$d/patch.diff 2>/dev/null || git apply $OLDPWD/$d/patch.diff 2>/dev/null) && git reset -q ) || { echo "$id $prop APPLY-FAILED"; ( cd $R && git reset -q --hard && git checkout -q -- . ); continue; }
  for s in $SEEDS; do
    VERIF_EVIDENCE_DIR=/tmp/wt/evidence_seed VERIF_REPO=$R VERIF_SEED=$s timeout 1500 ./check $prop --tier quick > /tmp/matrix_$$.out 2>&1; rc=$?
    nv=$(grep -c "^VIOLATION" /tmp/matrix_$$.out)
    echo "$id $prop seed=$s rc=$rc violations=$nv"
  done
  ( cd $R && git reset -q --hard && git checkout -q -- . )
done
rm -f /tmp/matrix_$$.out replays/*.json
