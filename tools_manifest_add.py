#!/usr/bin/env python3
"""tools_manifest_add.py <id> <design_ref> <text> <note> <technique> : adds / replaces a check entry in MANIFEST.json"""
import json, sys
pid, ref, text, note, tech = sys.argv[1:6]
m = json.load(open("/verif/MANIFEST.json"))
m["checks"] = [c for c in m["checks"] if c["property_id"] != pid]
m["checks"].append({"property_id": pid, "quick_cmd": "./check %s --tier quick" % pid, "thorough_cmd": "./check %s --tier thorough" % pid,
                    "evidence_file": "/verif/evidence/%s.json" % pid, "replay_cmd_template": "./check %s --replay {path}" % pid, "engine": "tlc",
                    "level_claimed": {"category": "model_checking", "text": text, "design_ref": ref}, "level_note": note, "technique": tech})
m["checks"].sort(key=lambda c: c["property_id"])
m["not_applicable"] = [x for x in m.get("not_applicable", []) if x["property_id"] != pid]
m["engines"][0]["serves_properties"] = sorted(c["property_id"] for c in m["checks"])
json.dump(m, open("/verif/MANIFEST.json", "w"), indent=1)
print("claimed:", m["engines"][0]["serves_properties"])
